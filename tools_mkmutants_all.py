#!/usr/bin/env python3
"""Regenerates mutants/*.patch from mutants/specs.py using a scratch worktree."""
import json
import os
import subprocess
import sys

HERE = os.path.dirname(os.path.abspath(__file__))
sys.path.insert(0, os.path.join(HERE, 'mutants'))
import specs  # noqa

WORK = '/var/tmp/mutwork'
if not os.path.isdir(WORK):
  subprocess.check_call(['git', '-C', '/repo', 'worktree', 'add', '-f', WORK, 'HEAD', '-q'])
subprocess.check_call(['git', '-C', WORK, 'checkout', '-q', '--detach', subprocess.check_output(['git', '-C', '/repo', 'rev-parse', 'HEAD']).decode().strip()])


def apply(s, old, new, occ=None):
  n = s.count(old)
  if occ is None:
    assert n == 1, f'occurs {n} times: {old[:60]!r}'
    return s.replace(old, new)
  parts = s.split(old)
  assert len(parts) - 1 > occ, (len(parts), occ)
  return old.join(parts[:occ + 1]) + new + old.join(parts[occ + 1:])


only = set(sys.argv[1:])
for sp in specs.SPECS:
  if only and sp['name'] not in only:
    continue
  if sp.get('skip'):
    continue
  subprocess.check_call(['git', '-C', WORK, 'checkout', '-q', '--', '.'])
  p = os.path.join(WORK, sp['file'])
  s = open(p).read()
  try:
    s = apply(s, sp['old'], sp['new'], sp.get('occurrence'))
    if sp.get('extra'):
      s = apply(s, sp['extra']['old'], sp['extra']['new'])
  except AssertionError as e:
    print('FAILED', sp['name'], e)
    continue
  open(p, 'w').write(s)
  subprocess.check_call(['/venv/bin/python', '-m', 'py_compile', p])
  diff = subprocess.check_output(['git', '-C', WORK, 'diff'])
  open(os.path.join(HERE, 'mutants', sp['name'] + '.patch'), 'wb').write(diff)
  print('wrote', sp['name'])
subprocess.check_call(['git', '-C', WORK, 'checkout', '-q', '--', '.'])
