#!/usr/bin/env python3
"""Renders DESIGN.md sections 12 (mutants) and 13 (seeded changes) from
mutants/results.json (or a sensitivity log) and seeded/*/meta.json."""
import glob
import json
import os
import re
import sys

HERE = os.path.dirname(os.path.abspath(__file__))
sys.path.insert(0, os.path.join(HERE, 'mutants'))
import specs  # noqa

res = {}
rp = os.path.join(HERE, 'mutants', 'results.json')
if os.path.exists(rp):
  res = json.load(open(rp))
# merge in lines of a sensitivity log given on the command line
for path in sys.argv[1:]:
  for l in open(path):
    m = re.match(r'(\S+)\s+(C\d+) rc=(\d) (KILLED|SURVIVED|HARNESS) (\[.*?\]) (\d+)s', l)
    if m:
      name, prop, rc, verdict, keys, wall = m.groups()
      res.setdefault(name, {}).setdefault('checks', {})[prop] = {
          'rc': int(rc), 'keys': eval(keys), 'wall_s': int(wall)}
    m = re.match(r'(\S+) tests_pass= (True|False)', l)
    if m:
      res.setdefault(m.group(1), {})['tests_pass'] = m.group(2) == 'True'
json.dump(res, open(rp, 'w'), indent=1, sort_keys=True)

out = ['## 12. Sensitivity: which checks kill which mutants', '',
       'Each mutant is a textual change of the repository (`mutants/specs.py`, '
       'patches in `mutants/*.patch`) applied to a scratch worktree; the quick '
       'check of every property it is meant to break runs with `VERIF_REPO` '
       'pointing at it (64 runs per check in this table). `revert_*` mutants '
       're-introduce a defect that was repaired. "suite" = the 714 pinned '
       'tests still pass with the mutant (blank = not verified; NO = the pinned '
       'suite itself already fails with it, so it is not a change "that passes '
       'the existing tests" and its row is informational only).', '',
       '| mutant | what it changes | suite | killed by (first key) | survived |',
       '|---|---|---|---|---|']
for sp in specs.SPECS:
  if sp.get('skip'):
    continue
  r = res.get(sp['name'], {})
  killed, surv = [], []
  for prop, c in sorted(r.get('checks', {}).items()):
    if c['rc'] == 1:
      k = c['keys'][0] if c['keys'] else ''
      killed.append(f"{prop} (`{k.split('/', 1)[-1]}`)")
    elif c['rc'] == 0:
      surv.append(prop)
    else:
      surv.append(prop + ' (harness)')
  tp = r.get('tests_pass')
  out.append(f"| {sp['name']} | {sp.get('why', '')} | "
             f"{'' if tp is None else ('yes' if tp else 'NO')} | "
             f"{'; '.join(killed)} | {', '.join(surv)} |")
out += ['', '## 13. Independently seeded changes: which checks catch which', '',
        'Written by fresh sub-agents that saw only the text of one property and a '
        'scratch worktree (nothing from /verif). Each was confirmed here: the '
        'demonstration exits 1 with the change and 0 without it, and the pinned '
        'suite passes with it; then the quick checks were run with `VERIF_REPO` '
        'pointing at the changed tree. Files: `seeded/<id>/{patch.diff, demo.py, '
        'notes.md, meta.json}`.', '',
        '| id | property | demo with/without | suite | caught by (first key) | missed by |',
        '|---|---|---|---|---|---|']
for mp in sorted(glob.glob(os.path.join(HERE, 'seeded', '*', 'meta.json'))):
  m = json.load(open(mp))
  caught, missed = [], []
  for prop, c in sorted(m.get('checks', {}).items()):
    if c['rc'] == 1:
      k = c['keys'][0] if c['keys'] else ''
      caught.append(f"{prop} (`{k.split('/', 1)[-1]}`)")
    else:
      missed.append(prop + ('' if c['rc'] == 0 else f" (rc {c['rc']})"))
  for prop in sorted(m.get('missed_before_strengthening', {})):
    caught = [c_ + ' — after strengthening' if c_.startswith(prop + ' ') else c_
              for c_ in caught]
  out.append(f"| {m['id']} | {m['id'].split('-')[0]} | "
             f"{m.get('demo_with_change_rc')}/{m.get('demo_without_change_rc')} | "
             f"{'pass' if m.get('suite_pass') else m.get('suite_pass')} | "
             f"{'; '.join(caught)} | {', '.join(missed)} |")
text = '\n'.join(out)
dp = os.path.join(HERE, 'DESIGN.md')
d = open(dp).read()
a = d.index('<!-- BEGIN GENERATED TABLES (tools_report.py) -->')
b = d.index('<!-- END GENERATED TABLES -->')
d = d[:a] + '<!-- BEGIN GENERATED TABLES (tools_report.py) -->\n\n' + text + '\n\n' + d[b:]
open(dp, 'w').write(d)
print('DESIGN.md tables updated:', len(out), 'lines')
