#!/usr/bin/env python3
"""Regenerates MANIFEST.json from the table below (keeps it valid at all times)."""
import json
import os

HERE = os.path.dirname(os.path.abspath(__file__))
PY = '/venv/bin/python'

CLAIMED = {
    # id: (level, technique, level text, level note, design ref)
    'C03': ('exploration',
            'deterministic simulation: seeded gradient-fault injection + crash/restore over replicated/quantized/sharded modes, gate invariants per tick',
            'Seeded search over fault sequences and histories; every tick checks that each stored preconditioner is bit-identical to the previous one or was replaced on a refresh tick by a root whose reported error is finite and below the threshold, that stored preconditioners stay finite, that unpoisoned leaves get finite updates; whether healthy leaves keep getting accepted refreshes after faults is counted as a reach probe, not asserted. Thresholds just above/below the reported error and non-finite errors (NaN, +-inf) are driven on purpose. Evidence, not proof.',
            'Trusts the reported inverse_pth_root_errors in training_metrics as the value the gate tested; vmap named axis stands in for pmap replicas; sizes are small (dims<=10, <=4 leaves, <=40 ticks).',
            'DESIGN.md 4 C03'),
    'C01': ('exploration',
            'deterministic simulation, in situ: residual oracle (existential in the ridge) on every root the simulated optimizer installs under gradient faults',
            'Restricted reach: the property quantifies over all PSD matrices, which simulation cannot do. What is decided is that every root accepted by the gate during seeded, faulted histories (Newton/eigh/LOBPCG-deflated Newton, exponents 1-8, ridge 0..1e-1 relative/absolute, padded sharded stacks, x64 on/off, 1x1..10x10 statistics incl. singular/rank-deficient/overflow-scaled ones) is finite, symmetric, zero on padding, satisfies ||X^p(S+dI)-I||_max <= reported error + 20 n p kappa u for some admissible ridge d, and that the reported eigenvalue estimate does not exceed lambda_max.',
            'Only matrices reachable from simulated gradient histories; direct float64 calls are not decided, LOBPCG deflation only for k in {1,2} on 12..16-dimensional statistics; a scale class (6..12-dimensional statistics at gradient scales 1e-9..1e8) and a late-training class (beta2 = 0.5, 20-29 ticks, low-rank histories: the initial epsilon*I has decayed and statistics are genuinely rank deficient) are part of the swarm; vacuous evaluations (singular, kappa>1e8, slack>0.05) are counted separately in the evidence.',
            'DESIGN.md 5 C01'),
    'C02': ('exploration',
            'deterministic simulation: one-step refinement of the real update against an independent float64 reference model over seeded configs, trees and (faulted) histories',
            'Seeded search over option combinations, trees of rank 0-4 and histories; at every tick a float64 numpy model written from the documentation, fed the implementation\'s own previous state and its stored roots, predicts update, statistics, both momenta and the graft accumulator to float32 rounding tolerance (forward-error bound of the root application included). Replicated, simulated-replica, quantized and sharded (roots from the previous refresh) modes. Root provenance: a stored root that changed must have changed on a refresh tick and must satisfy the residual oracle for the exponent the documentation assigns to that statistic (2 x rank or the override), also under simulated replicas where each replica computes a slice of the roots; a float64 replay of the reached statistics (roots64) bounds what precision the documented root needs.',
            'Root accuracy proper is decided by C01/C03/C04 (here only exponent and provenance); leaves into which the plan injected non-finite or out-of-range values are muted (counted).',
            'DESIGN.md 4 C02, appendix A'),
    'C05': ('exploration',
            'deterministic simulation: closed-form grafting norms and model-computed directions per tick, across every preconditioner representation',
            'With momentum and weight decay off, per tick and leaf: from the start step on the update has the closed-form graft step norm and the direction of the preconditioned gradient computed by the reference from the roots in the state (dense, int16-dequantized, low-rank packed, FD-packed, sharded, Tearfree blocks, Tearfree sketch); before the start step and for excluded leaves it is the graft step itself. Graft accumulators are also tracked free-running from the gradient history.',
            'Adafactor grafting is not exercised; direction checks are vacuous when the preconditioned gradient is numerically zero (an exactly zero preconditioned gradient must give a zero update: reached with row-sparse dead-direction histories).',
            'DESIGN.md 4 C05'),
    'C04': ('exploration',
            'deterministic simulation: virtual clock (count leaf) ticked, jumped and rolled back; explicit schedule automaton vs bitwise state diffs per tick',
            'Seeded search over (s, p or lr-scheduled p_t, S) schedules and op histories (STEP, CLOCK_JUMP up to 2^20, stale-checkpoint CRASH_RESTORE, REJIT) for Distributed Shampoo (jit, simulated replicas, quantized, sharded) and Tearfree Shampoo/Sketchy. Per tick: every counter +1, statistics/preconditioner/diagnostic leaves byte-identical off schedule (Sketchy variants ekfac_svd / add_ggt / linear_approx_tail included, bitwise oracles only), refreshed statistics equal the one-step float64 reference, accepted roots satisfy the root oracle against the statistics stored at that tick, and the update comes from the branch (graft momentum vs preconditioned) the clock selects.',
            'The automaton is written from the docstrings; lr-scheduled intervals are evaluated in float64 with dont-care ticks at rounding boundaries; bounded sizes and horizons.',
            'DESIGN.md 4 C04'),
    'C07': ('exploration',
            'deterministic simulation: configuration swarm over every constructor argument x trees x short histories with restore; outcome taxonomy (success / explicit rejection / internal error) and layout oracles incl. scan carry, checkpoint target and sharded declarations',
            'Seeded search over all constructor options of distributed_shampoo (compression, frequent directions, gradient averaging, reuse/reset, LOBPCG, INPUT/OUTPUT, block size 1, metrics on/off, quantization, simulated replicas, sharding, x64 on/off), sm3 and tearfree (Sketchy variants ekfac_svd / add_ggt / linear_approx_tail included) on trees of rank 0-4 with unit dims and the empty tree, with Python-float, float32 and optax-schedule learning rates. Every run must either succeed or raise an explicit explanatory rejection; on success the update tree matches the parameters in structure/shape/dtype, the state signature is a fixed point of update (also demonstrated as a lax.scan carry and a from_bytes target), and in sharded mode init, declared shapes/dtypes and partition specs describe one tree; no state leaf is weakly typed and dtypes do not drift under x64.',
            'Explicit rejection = raise statement, or assert whose message contains words (a string literal; an assert that only dumps a value is an internal error), in a repository frame; LOBPCG only on sizes its JAX implementation accepts; T<=4 ticks.',
            'DESIGN.md 4 C07'),
    'C08': ('exploration',
            'deterministic simulation: four optimizer instances in lock-step (blocked tensor / its blocks as leaves / one block alone / plus companions of mixed rank at a random tree position), optionally on simulated replicas, on histories with per-block scales 1e-6..1e6, one-hot and zero blocks',
            'Twin runs for Distributed Shampoo (1 or 2 blocked axes, ragged last block) and Tearfree Shampoo: per tick every block of the blocked tensor gets the update (graft none) or the direction (grafted) that it gets as a separate leaf, zero-gradient blocks get zero, the tensor\'s update is unchanged by companion leaves of arbitrary shape, rank, scale and position (also with 2-3 simulated replicas, where statistics of different leaves share a replica\'s work list), and parameters smaller than one block behave like their own block. Blocked tensors may carry an unblocked axis before/between/after the blocked ones; overall gradient scales 1..1e-6; beta2 = 0.5 histories of 18-26 ticks leave the initialisation-dominated regime.',
            'Momentum and weight decay off; tolerances 2e-3 (float32 DS) / 1e-6 (float64 Tearfree) relative.',
            'DESIGN.md 4 C08'),
    'C09': ('exploration',
            'deterministic simulation: sketch state after every update vs the exact float64 discounted covariance kept by the oracle, over seeded histories with zero / low-rank / scale-jump ticks, restores and clock jumps',
            'Three systems run real code: Tearfree Sketchy (per-axis state, rank 2-3 tensors), the Distributed Shampoo frequent-directions root (rank 2-3 tensors) (decoded from the packed preconditioner slot with the repo\'s own unpack) and the OCO sketches. After every sketch update: columns orthonormal-or-zero, l>=0, t>=0, V diag(l) V\' <= C <= V diag(l) V\' + t I, t_new = b t_old + r with r recomputed from the stored previous sketch, zero-gradient ticks discount sketch and escaped mass by b, rank<=k histories give t=0, stored inverse roots equal (l+t+eps)^(-1/p).',
            'float32 tolerances 1e-4..2e-4 relative to ||C|| (probed headroom >= 15x); the DS FD path is driven with finite gradients only (its LAPACK svd hangs on non-finite input); one known finding (padded DS FD statistics) is listed in known_findings.json.',
            'DESIGN.md 4 C09, appendix C'),
    'C10': ('exploration',
            'deterministic simulation, in situ: compressed-mode runs; packed state decoded with the repo\'s own unpack and compared with dense application and with the exact float64 truncated root',
            'Restricted reach (clause 1, pack/unpack as isolated functions, is not decided). In compression_rank = +-1..3 runs (jit, simulated replicas, sharded, padded statistics, the frequent-directions packed variant, gradient scales down to 1e-12 in float32): the update through the compressed application path equals the reference\'s dense application of c(I-VV\')+V diag(e) V\' (one-step refinement and grafting direction/norm oracles), on refresh ticks the retained directions are orthonormal inside the real (unpadded) dimensions (float64 roots), and the retained subspace, the retained root values and the mean of the non-retained root values equal those of the exact float64 eigendecomposition of the stored statistics for some admissible ridge.',
            'Root-value comparisons are vacuous where lambda+d is within 1000x of the float32 eigenvalue noise or the gap at the cut is below 1e-3 lambda_max.',
            'DESIGN.md 5 C10'),
    'C11': ('exploration',
            'deterministic simulation, in situ: every quantized leaf of every visited state (SM3 int8 momentum; DS int8 momenta, int16 statistics/preconditioners under simulated replicas) under scale jumps and near-overflow/subnormal faults',
            'Restricted reach (all float32 tensors / bfloat16 / direct calls are not decided). Per quantized leaf: integers within +-127/32767 and never the most-negative value, column max |q| equals the bucket count, payload diagonal zero up to rounding residue, dequantized value within half a bucket of the float exposed by the update, re-quantization with the repo\'s quantizer reproduces the integers, carried-but-not-updated leaves keep their integers and their bucket sizes stay within 4 ulp of where the carried stretch began; untouched leaves are byte-identical (cadence oracle). Exponent sweep: every reached quantized tensor is re-scaled by powers of two across the float32 exponent range and re-quantized with the repo\'s quantizer, which must reproduce the same integers and a bucket scaled by the same power.',
            'Leaves whose bucket sizes or diagonals are non-finite (the quantized float was not finite) are vacuous. Two known findings (float32 subnormal bucket sizes / subnormal inputs are flushed to zero by XLA CPU) are listed in known_findings.json.',
            'DESIGN.md 5 C11'),
    'C12': ('exploration',
            'deterministic simulation: SM3 accumulators per tick vs an exact float64 per-entry decayed sum kept by the oracle, over histories with zero ticks, scale jumps 1e+-6 and crash-restores',
            'Per tick and coordinate: min over the coordinate\'s accumulators >= exact decayed sum (1-1e-5); beta2=1 => accumulators non-decreasing; beta1=0 and no weight decay => |u| <= lr |g| / sqrt(v+eps); rank 1 => equality with diagonal AdaGrad/RMSProp.',
            'float32 state, x64 off.',
            'DESIGN.md 4 C12'),
    'C13': ('exploration',
            'deterministic simulation: D in-process replicas (vmap named axis; real pmap cross-check) vs a one-replica twin, RESCALE and CRASH_RESTORE mid-run',
            'Seeded search over trees (N statistics, all residues N mod D), D in 2..13 simulated replicas (and real pmap on forced host devices for D<=8), full / int16-quantized / low-rank compressed / frequent-directions preconditioners, each also with gradient faults on some leaves, and sharded mode with different declared device counts. After every tick all replicas are byte-identical and agree with the one-replica twin (statistics, momenta, gate decisions, preconditioners to a conditioning-aware rounding tolerance, updates).',
            'Equality across D is checked to a tolerance because D=1 and D>1 are different compiled programs; vmap stands in for pmap (cross-checked). The tolerance of a root comparison is the one of the statistic the root was computed from; momenta downstream of a root too ill-conditioned to compare are vacuous (counted).',
            'DESIGN.md 4 C13'),
    'C14': ('fault_enumeration',
            'deterministic simulation: crash at every step k of each sampled history, only serialized bytes survive, fresh optimizer object/compile (and fresh interpreter for a subset), bitwise twin comparison',
            'For every sampled (optimizer family and mode, config, tree, history of T ticks) every crash point k in 0..T is executed: to_bytes at k, drop optimizer object, jit cache and live state, construct a fresh optimizer, from_bytes into its init template, continue to T; every later update and state leaf must be byte-identical to the uninterrupted twin. Families: DS full/quantized(replicas)/compressed/FD/sharded/eager/eager-FD, SM3 (x64 on/off), Tearfree Shampoo/Sketchy; Python-float and optax-schedule learning rates; restored leaves as device arrays, and as numpy arrays exactly as flax returns them (completion, plus numeric equality of the linear accumulators of the state). Exhaustive over crash points per history; histories are sampled.',
            'Checkpoint = flax msgpack of the state pytree; parameters and the gradient stream are checkpointed by the stub trainer; restored leaves are placed on device before an eager update.',
            'DESIGN.md 4 C14'),
    'C15': ('exploration',
            'deterministic simulation: one-step refinement of the Tearfree chain against a float64 model, plus lr-scaling and shape twins, over seeded configs and histories with clock jumps/restores/faults',
            'Seeded search over all option combinations of the Tearfree optimizer; every tick is compared leaf by leaf (block covariances, exact per-block inverse roots with the per-block 1e-6 cut-off, graft accumulator, momentum trace, update) with a float64 model fed the implementation\'s previous state; twin runs check that the update is exactly linear in the learning rate (bitwise for powers of two) and that pre-merged / pre-padded tensors receive the same values for real entries.',
            'Shampoo under x64 with float64 parameters, Sketchy in float32 (its sketch is checked by C09); root comparisons are vacuous when an eigenvalue lies within 4x of the cut-off; Adafactor grafting not exercised.',
            'DESIGN.md 4 C15, appendix B'),
    'C16': ('exploration',
            'deterministic simulation: stepwise init/update pairs vs closed forms, exact full-matrix AdaGrad and exact covariance; compiled scan/fori_loop runner as a twin',
            'Seeded search over algorithm x dimension x sketch size x delta x lr x gradient sequence kind; OGD and diagonal AdaGrad iterates equal their closed forms to 1e-12, every sketched method keeps its last sketch row zero and its sketch within the FD bracket, alpha equals delta plus the accumulated escaped mass, S-AdaGrad equals exact full-matrix AdaGrad whenever the history rank is below the sketch size and delta>0, and the compiled runner\'s history at the observation indices equals the stepwise states. Sequences include exact-zero rounds, duplicated rows, scale jumps, whole-sequence scales down to 1e-12 and single features 1e-12 below the others; delta down to 1e-24 and 0.',
            'x64 on; the lossless comparison is vacuous when cond(delta I + C) makes float64 meaningless (>4e9).',
            'DESIGN.md 4 C16'),
    'C17': ('exploration',
            'deterministic simulation: train -> durable checkpoints -> reallocation tool (states= and real files with shuffled listdir / seeded executor order) -> restart pipeline',
            'Restricted reach (only score vectors a simulated training run produces, incl. zero scores of dead layers, exact ties and 1e+-6 scale disparity). For every rule / running average / base rank: every assigned rank is an int in [1, dim], every equal-dim group sums to at most group size x base rank, the result does not depend on listdir or executor order, and Sketchy restarts and steps with the returned memory_alloc.',
            'os.listdir and ThreadPoolExecutor are rebound inside the reallocation module only; PYTHONHASHSEED is pinned because the tool breaks ties by set iteration order.',
            'DESIGN.md 5 C17'),
}

NOT_YET = {}

NOT_APPLICABLE = {
    'C06': 'pure shape-only functions quantified over all shapes: no schedule, clock, fault, crash or interleaving for a simulator to explore; the simulator never calls them in isolation (DESIGN.md 5, C06)',
}


def main():
  props = [json.loads(l)['id'] for l in open(os.path.join(HERE, 'properties.jsonl'))]
  checks = []
  for pid in props:
    if pid not in CLAIMED:
      continue
    level, tech, text, note, ref = CLAIMED[pid]
    checks.append({
        'property_id': pid,
        'quick_cmd': f'timeout 1500 {PY} check.py {pid} quick',
        'thorough_cmd': f'timeout 7200 {PY} check.py {pid} thorough',
        'evidence_file': f'/verif/evidence/{pid}.json',
        'replay_cmd_template': f'{PY} check.py --replay {{path}}',
        'engine': 'sim',
        'level_claimed': {'category': level, 'text': text, 'design_ref': ref},
        'level_note': note,
        'technique': tech,
    })
  na = []
  for pid in props:
    if pid in CLAIMED:
      continue
    reason = NOT_APPLICABLE.get(pid) or NOT_YET.get(pid) or \
        'check not built yet in this round (work in progress; see DESIGN.md 10)'
    na.append({'property_id': pid, 'reason': reason})
  m = {
      'version': 1,
      'setup_cmd': f'{PY} check.py selftest setup',
      'hooks': {
          'guard': 'PRECONDITION_VERIF',
          'enable': 'no source hook is needed: every seam is the public init/update API, the state pytree, or a module attribute rebound from the harness (DESIGN.md 2.1)',
          'baseline_off_cmd': 'cd /repo && /venv/bin/python -m pytest -ra -q -p no:cacheprovider --timeout=900 --continue-on-collection-errors',
          'source_commits': [],
          'add_only': True,
      },
      'engines': [{
          'name': 'sim', 'path': '/verif/sim',
          'serves_properties': sorted(CLAIMED),
          'kind_free_text': 'deterministic simulation with fault injection: seeded plan generator, real optimizer code under a virtual clock (count leaf), simulated replicas (vmap named axis), simulated checkpoint store and crash/restore, gradient fault injector, per-tick oracles and float64 reference models, ddmin minimiser, replay files',
      }],
      'checks': checks,
      'not_applicable': na,
      'notes': 'Exit codes: 0 held (KNOWN-FINDING lines allowed), 1 VIOLATION, 2 harness error/timeout. VERIF_SEED, VERIF_TIER, VERIF_REPO, VERIF_JOBS, VERIF_RUNS honoured.',
  }
  with open(os.path.join(HERE, 'MANIFEST.json'), 'w') as f:
    json.dump(m, f, indent=1)
  print('MANIFEST.json written:', len(checks), 'checks,', len(na), 'not claimed')


if __name__ == '__main__':
  main()
