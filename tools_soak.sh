#!/bin/bash
# tools_soak.sh "<seeds>" "<props>"  - false-alarm soak on the unchanged tree
cd "$(dirname "$0")"
for s in $1; do for p in $2; do
  VERIF_SEED=$s VERIF_NO_EVIDENCE=1 timeout 1500 /venv/bin/python check.py $p ${3:-quick} 2>&1 | grep -E "VIOLATION|key=|HARNESS|seed=" | cut -c1-300
done; done
