#!/usr/bin/env python3
"""Runs the pinned test suite in a repo dir and compares with BASELINE.json."""
import json
import os
import subprocess
import sys
import tempfile
import xml.etree.ElementTree as ET

repo = sys.argv[1] if len(sys.argv) > 1 else '/repo'
b = json.load(open('/root/.vp/BASELINE.json'))
want = set(b['stable_pass'])
with tempfile.TemporaryDirectory(dir='/var/tmp') as td:
  x = os.path.join(td, 'j.xml')
  env = dict(os.environ)
  env.pop('PRECONDITION_VERIF', None)
  subprocess.run(['/venv/bin/python', '-m', 'pytest', '-q', '-p',
                  'no:cacheprovider', '--timeout=900',
                  '--continue-on-collection-errors', '-n', sys.argv[2] if len(sys.argv) > 2 else '0',
                  f'--junitxml={x}'] if False else
                 ['/venv/bin/python', '-m', 'pytest', '-q', '-p',
                  'no:cacheprovider', '--timeout=900',
                  '--continue-on-collection-errors', f'--junitxml={x}'],
                 cwd=repo, env=env, stdout=subprocess.DEVNULL,
                 stderr=subprocess.DEVNULL)
  passed = set()
  for tc in ET.parse(x).getroot().iter('testcase'):
    if not any(c.tag in ('failure', 'error', 'skipped') for c in tc):
      passed.add(f"{tc.get('classname')}::{tc.get('name')}")
missing = sorted(want - passed)
print(f'passed={len(passed)} baseline={len(want)} missing={len(missing)}')
for m in missing[:20]:
  print('  MISSING', m)
sys.exit(1 if missing else 0)
