#!/venv/bin/python
"""Re-runs witness/corpus replay files and refreshes their expected_digest."""
import json
import sys
sys.path.insert(0, '/verif')
from sim import pool
for path in sys.argv[1:]:
  d = json.load(open(path))
  rep = pool.run_jobs([{'id': 0, 'prop': d['property'], 'plan': d['plan']}],
                      n_workers=1, timeout=900)[0]
  keys = [v['key'] for v in rep['result']['violations']] if rep.get('ok') else [rep.get('exc')]
  d['expected_digest'] = rep['result']['digest'] if rep.get('ok') else None
  json.dump(d, open(path, 'w'), indent=1, sort_keys=True)
  print(path, 'keys', sorted(set(keys))[:3], 'want', d.get('violation_key'))
