#!/usr/bin/env python3
"""tools_seeded.py <id> <worktree> <props,comma> [--suite]
Confirms an independently written breaking change (demo fails with it, passes
without it, optionally the pinned suite still passes), runs the named checks
against it and records everything under /verif/seeded/<id>/."""
import json
import os
import shutil
import subprocess
import sys
import time

HERE = os.path.dirname(os.path.abspath(__file__))
sid, wt, props = sys.argv[1], sys.argv[2], sys.argv[3].split(',')
suite = '--suite' in sys.argv
out = os.path.join(HERE, 'seeded', sid)
os.makedirs(out, exist_ok=True)
PY = '/venv/bin/python'


def sh(cmd, **kw):
  return subprocess.run(cmd, shell=True, capture_output=True, text=True, **kw)


src = os.path.join(wt, '_out')
for f in ('patch.diff', 'demo.py', 'notes.md'):
  if os.path.exists(os.path.join(src, f)):
    shutil.copy(os.path.join(src, f), os.path.join(out, f))
meta = {'id': sid, 'worktree_used': wt}
if os.path.exists(os.path.join(out, 'meta.json')):
  meta.update(json.load(open(os.path.join(out, 'meta.json'))))
# make sure the worktree carries exactly the patch
sh('git checkout -- precondition', cwd=wt)
r = sh(f'git apply {out}/patch.diff', cwd=wt)
assert r.returncode == 0, r.stderr
env = dict(os.environ, JAX_PLATFORMS='cpu')
r1 = sh(f'timeout 900 {PY} _out/demo.py', cwd=wt, env=env)
sh('git checkout -- precondition', cwd=wt)
r0 = sh(f'timeout 900 {PY} _out/demo.py', cwd=wt, env=env)
sh(f'git apply {out}/patch.diff', cwd=wt)
meta['demo_with_change_rc'] = r1.returncode
meta['demo_without_change_rc'] = r0.returncode
meta['demo_with_change_tail'] = (r1.stdout + r1.stderr)[-400:]
print('demo with change rc', r1.returncode, '| without rc', r0.returncode)
if suite:
  t0 = time.time()
  r = sh(f'{PY} {HERE}/tools_baseline.py {wt}')
  meta['suite'] = r.stdout.strip()[-200:]
  meta['suite_pass'] = r.returncode == 0
  print('suite', meta['suite'], f'{time.time() - t0:.0f}s')
meta.setdefault('checks', {})
for prop in props:
  if not prop:
    continue
  t0 = time.time()
  r = sh(f'{PY} check.py {prop} quick', cwd=HERE,
         env=dict(os.environ, VERIF_REPO=wt, VERIF_NO_EVIDENCE='1',
                  VERIF_MAX_REPORTS='2'))
  keys = [l.strip()[4:] for l in r.stdout.splitlines() if l.startswith('  key=')]
  last = r.stdout.strip().splitlines()[-2:] if r.stdout.strip() else []
  if meta['checks'].get(prop, {}).get('rc') == 0 and r.returncode == 1:
    # missed by the check as it stood when the change arrived; caught after the
    # check was strengthened (DESIGN 13)
    meta.setdefault('missed_before_strengthening', {})[prop] = meta['checks'][prop]
  meta['checks'][prop] = {'rc': r.returncode, 'keys': keys[:4],
                          'wall_s': round(time.time() - t0),
                          'summary': [l[:200] for l in last]}
  print(prop, 'rc', r.returncode, keys[:3], f'{time.time() - t0:.0f}s')
json.dump(meta, open(os.path.join(out, 'meta.json'), 'w'), indent=1)
