#!/venv/bin/python
"""CLI: check.py <Cxx> {quick|thorough} | --replay <file> | selftest ..."""
import os
import sys

HERE = os.path.dirname(os.path.abspath(__file__))
sys.path.insert(0, HERE)
os.chdir(HERE)


def main(argv):
  from sim import harness
  if len(argv) >= 2 and argv[0] == '--replay':
    return harness.replay(argv[1])
  if argv and argv[0] == 'selftest':
    from sim import selftest
    return selftest.main(argv[1:])
  if len(argv) >= 3 and argv[1] == '--replay':
    return harness.replay(argv[2])
  prop = argv[0].upper()
  tier = argv[1] if len(argv) > 1 else os.environ.get('VERIF_TIER', 'quick')
  seed = int(os.environ.get('VERIF_SEED', '0'))
  return harness.run_check(prop, tier, seed)


if __name__ == '__main__':
  try:
    rc = main(sys.argv[1:])
  except SystemExit:
    raise
  except BaseException as e:  # harness failure: never exit 0
    import traceback
    traceback.print_exc()
    print(f'HARNESS-ERROR {type(e).__name__}: {e}')
    rc = 2
  sys.exit(rc)
