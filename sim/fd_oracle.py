"""Frequent-directions invariants against the exact float64 covariance
(DESIGN 4 C09, appendix C)."""
import numpy as np


def check_sketch(ctx, mk, t, where, V, ell, tau, C, slack=0.0, tol=1e-4,
                 pred='bracket', extra=None):
  """V: (d,k) columns; ell: (k,) eigenvalues of the covariance sketch;
  tau: escaped mass; C: exact covariance (d,d); slack: accumulated ridge the
  configuration added along sketch directions (loosens the lower bracket)."""
  extra = extra or {}
  V = np.asarray(V, np.float64)
  ell = np.asarray(ell, np.float64)
  C = np.asarray(C, np.float64)
  if not (np.all(np.isfinite(V)) and np.all(np.isfinite(ell)) and
          np.isfinite(tau) and np.all(np.isfinite(C))):
    ctx.ev('fd_bracket', 'vacuous')
    return False
  d, k = V.shape
  # columns orthonormal or zero
  G = V.T @ V
  diag = np.diag(G)
  off = G - np.diag(diag)
  bad_diag = np.max(np.minimum(np.abs(diag), np.abs(diag - 1.0))) if k else 0.0
  bad_off = float(np.max(np.abs(off))) if k else 0.0
  ok = bad_diag <= tol and bad_off <= tol
  ctx.ev('fd_orthonormal', 'ok' if ok else 'violation',
         max(bad_diag, bad_off) / tol)
  if not ok:
    ctx.violate('fd_orthonormal', mk, 'columns_not_orthonormal_or_zero'
                if pred == 'bracket' else pred, tick=t, where=where, diag_defect=float(bad_diag),
                off_defect=bad_off, **extra)
  # signs
  sc = float(np.max(np.abs(np.linalg.eigvalsh(C)))) if C.size else 0.0
  neg = (np.min(ell) if k else 0.0) < -tol * max(sc, 1e-300) or \
      tau < -tol * max(sc, 1e-300)
  ctx.ev('fd_sign', 'violation' if neg else 'ok')
  if neg:
    ctx.violate('fd_sign', mk, 'negative_eigenvalue_or_tail'
                if pred == 'bracket' else pred, tick=t,
                where=where, min_ell=float(np.min(ell)) if k else 0.0,
                tau=float(tau), **extra)
  # a zero column must carry a zero eigenvalue
  zero_col = np.abs(diag) <= tol
  if k and np.any(zero_col & (np.abs(ell) > tol * max(sc, 1e-300))):
    ctx.violate('fd_sign', mk, 'eigenvalue_on_zero_direction'
                if pred == 'bracket' else pred, tick=t,
                where=where, **extra)
  S = (V * ell) @ V.T
  M_lo = 0.5 * ((C - S) + (C - S).T)
  M_hi = 0.5 * ((S + tau * np.eye(d) - C) + (S + tau * np.eye(d) - C).T)
  if not (np.all(np.isfinite(M_lo)) and np.all(np.isfinite(M_hi))):
    # finite factors whose products overflow float64 (LAPACK may hang on
    # non-finite input): nothing to compare
    ctx.ev('fd_bracket', 'vacuous')
    return False
  lo = float(np.min(np.linalg.eigvalsh(M_lo))) if d else 0.0
  hi = float(np.min(np.linalg.eigvalsh(M_hi))) if d else 0.0
  bound = tol * max(sc, 1e-300)
  ok_lo = lo >= -bound - slack
  ok_hi = hi >= -bound
  ctx.ev('fd_lower', 'ok' if ok_lo else 'violation', -lo / (bound + slack))
  ctx.ev('fd_upper', 'ok' if ok_hi else 'violation', -hi / bound)
  if not ok_lo:
    ctx.violate('fd_lower', mk, pred, tick=t, where=where, min_eig=lo,
                bound=bound + slack, scale=sc, **extra)
  if not ok_hi:
    ctx.violate('fd_upper', mk, pred, tick=t, where=where, min_eig=hi,
                bound=bound, scale=sc, tau=float(tau), **extra)
  return ok and ok_lo and ok_hi


def kth_eig(V, ell, G, beta, k):
  """(k+1)-th eigenvalue of beta * V diag(ell) V^T + G G^T (float64)."""
  V = np.asarray(V, np.float64)
  M = beta * (V * np.asarray(ell, np.float64)) @ V.T + G @ G.T
  if not np.all(np.isfinite(M)):
    return float('nan'), np.zeros(0)
  w = np.sort(np.linalg.eigvalsh(0.5 * (M + M.T)))[::-1]
  return float(max(w[k], 0.0)) if k < len(w) else 0.0, w
