"""selftest setup | determinism [prop...] | sensitivity [mutant...]"""
import json
import os
import sys
import time

from sim import pool

HERE = os.path.dirname(os.path.dirname(os.path.abspath(__file__)))


def setup():
  """Nothing is fetched or built: verify the interpreter and the editable
  install, and that a worker starts for both x64 settings."""
  import subprocess
  code = ('import jax, flax, optax, numpy, scipy; import precondition, os; '
          'print(jax.__version__, os.path.dirname(precondition.__file__))')
  r = subprocess.run([pool.PY, '-c', code], capture_output=True, text=True,
                     env=dict(os.environ, JAX_PLATFORMS='cpu'))
  print(r.stdout.strip() or r.stderr[-2000:])
  if r.returncode != 0:
    return 2
  for x64 in (True, False):
    w = pool.Worker(x64, 'setup')
    w.close()
  os.makedirs(os.path.join(HERE, 'out'), exist_ok=True)
  os.makedirs(os.path.join(HERE, 'evidence'), exist_ok=True)
  print('setup ok')
  return 0


def determinism(props, n=64, seed=0):
  """n seeds x 2 executions in different processes, at 2 worker counts and
  under 2 hash seeds; any digest difference is a harness error."""
  from sim import harness
  bad = 0
  for prop in props:
    mod = harness.prop_module(prop)
    plans = []
    for i in range(n):
      p = mod.generate(seed, 100000 + i, 'quick')
      p['seed'], p['run'] = seed, 100000 + i
      plans.append(p)
    jobs = [{'id': i, 'prop': prop, 'plan': p} for i, p in enumerate(plans)]
    t0 = time.time()
    a = pool.run_jobs(jobs, n_workers=16, timeout=600, hashseed='0')
    b = pool.run_jobs(jobs, n_workers=5, timeout=600,
                      hashseed=getattr(mod, 'DET_HASHSEED', '31337'))
    diff = []
    for i, (x, y) in enumerate(zip(a, b)):
      dx = x['result']['digest'] if x and x.get('ok') else ('ERR', (x or {}).get('exc'), (x or {}).get('kind'))
      dy = y['result']['digest'] if y and y.get('ok') else ('ERR', (y or {}).get('exc'), (y or {}).get('kind'))
      if dx != dy:
        diff.append((i, dx, dy))
    print(f'determinism {prop}: {n} plans x 2 executions, '
          f'{len(diff)} digest differences, {time.time() - t0:.0f}s')
    for d in diff[:5]:
      print('  DIFF', d)
    bad += len(diff)
  return 2 if bad else 0


def main(argv):
  if not argv or argv[0] == 'setup':
    return setup()
  if argv[0] == 'determinism':
    props = [a.upper() for a in argv[1:] if not a.startswith('-')] or ['C03']
    n = int(os.environ.get('VERIF_DET_N', '64'))
    return determinism(props, n=n)
  if argv[0] == 'sensitivity':
    from sim import sensitivity
    return sensitivity.main(argv[1:])
  print('unknown selftest', argv)
  return 2
