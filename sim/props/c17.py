"""C17 - Sketchy memory reallocation respects the memory budget: decided
through the train -> checkpoint -> reallocate -> restart pipeline."""
from sim.util import derive_rng, pick, wpick

LEVEL = 'exploration'
BUDGET = {
    'quick': dict(runs=150, wall=420, timeout=600, det=4, minimise=40),
    'thorough': dict(runs=2500, wall=3000, timeout=600, det=16, minimise=200),
}
RULE = ('Each run = job 1 (Tearfree Sketchy trained for a few ticks on 1-6 '
        'layers whose axis dims come from a small pool, with per-layer '
        'gradient scales 1e-6..1e6, dead layers and tied layers, durable '
        'checkpoints at several ticks), the reallocation tool called through '
        'states= and through real checkpoint files read with a shuffled '
        'listdir and a seeded executor order, for each scoring rule / running '
        'average / base rank, then job 2 restarted with the returned '
        'memory_alloc. Distinct non-trivial = distinct (rule, running average, '
        'base rank, #layers, #equal-dim groups, dead layer?, ties?, via files?).')
COMPONENTS = {
    'real': ['precondition.tearfree.reallocation (create_redist_dict, score_fn, '
             'create_state, load_checkpoints)', 'precondition.tearfree sketchy '
             'optimizer (job 1 and job 2)', 'flax.training.checkpoints on real '
             'files in a per-run scratch dir', 'jax/XLA CPU'],
    'simulated': ['os.listdir order and ThreadPoolExecutor task order inside '
                  'the reallocation module (names rebound to seeded proxies; '
                  'the real modules are never mutated)'],
    'stub': ['model/data: synthetic per-layer gradients'],
}
ASSUMPTIONS = ['restricted reach: only score vectors that a simulated training '
               'run produces (incl. zero scores of dead layers and exact ties); '
               'arbitrary score vectors are not decided']
# The tool breaks score ties by iterating a Python set of layer names, so its
# output for tied inputs depends on PYTHONHASHSEED; simulated runs pin it.
DET_HASHSEED = '0'
EXPECTED_PROBES = ['via_files', 'dead_layer', 'tied_layers', 'shared_dim_group',
                   'job2_restarted', 'order_varied']
RULES = ['ggt_intrinsic_rank', 'ggt_trace', 'tail_rho', 'sketch_intrinsic_rank',
         'sketch_trace']


def generate(seed, idx, tier):
  rng = derive_rng(seed, 'C17', idx)
  pool = [pick(rng, [4, 5, 6, 8, 8, 10, 12]) for _ in range(rng.randrange(1, 4))]
  n = rng.randrange(1, 7)
  layers = []
  for _ in range(n):
    rank = wpick(rng, [(2, 6), (3, 1)])
    layers.append([pick(rng, pool) for _ in range(rank)])
  if rng.random() < 0.3 and n >= 2:
    layers[1] = list(layers[0])     # tie candidate
  scales = [10.0 ** rng.randrange(-6, 7) if rng.random() < 0.5 else 1.0
            for _ in range(n)]
  dead = [rng.random() < 0.15 for _ in range(n)]
  tied = rng.random() < 0.25 and n >= 2
  T = rng.randrange(3, 8)
  ck = sorted(set([T] + [rng.randrange(1, T + 1) for _ in range(2)]))
  return {'system': 'realloc', 'class': 'pipeline', 'x64': False,
          'layers': layers, 'scales': scales, 'dead': dead, 'tied': tied,
          'base_rank': rng.randrange(1, 7), 'T': T, 'ckpts': ck,
          'rule': pick(rng, RULES), 'avg': rng.random() < 0.5,
          'decay': pick(rng, [0.999, 0.9, 0.5]), 'gseed': rng.randrange(1 << 30),
          'via_files': rng.random() < 0.4, 'seam_seeds': [rng.randrange(1000),
                                                          rng.randrange(1000)],
          'ops': [{'op': 'STEP'}] * T}


class _ShuffleOS:
  """Proxy for the `os` name inside the reallocation module."""

  def __init__(self, real, rng):
    self._real, self._rng = real, rng

  def listdir(self, d):
    xs = sorted(self._real.listdir(d))
    self._rng.shuffle(xs)
    return xs

  def __getattr__(self, k):
    return getattr(self._real, k)


class _SerialExecutor:

  def __init__(self, rng):
    self._rng = rng

  def __enter__(self):
    return self

  def __exit__(self, *a):
    return False

  def map(self, fn, items):
    items = list(items)
    order = list(range(len(items)))
    self._rng.shuffle(order)
    out = [None] * len(items)
    for i in order:
      out[i] = fn(items[i])
    return out


class _Concurrent:

  def __init__(self, rng):
    rng_ = rng

    class futures:  # pylint: disable=invalid-name
      @staticmethod
      def ThreadPoolExecutor(*a, **k):
        return _SerialExecutor(rng_)
    self.futures = futures


def run(plan):
  import os
  import random
  import shutil
  import tempfile
  import numpy as np
  import jax.numpy as jnp
  from flax import serialization
  from precondition.tearfree import reallocation
  from sim.ctx import Ctx
  from sim.tf_world import TFWorld
  ctx = Ctx(plan, 'C17')
  layers = [tuple(l) for l in plan['layers']]
  n = len(layers)
  base = int(plan['base_rank'])
  cfg = {'second_order': 'sketchy', 'merge_dims': 2,
         'sketchy': {'rank': base, 'second_moment_decay': plan['decay'],
                     'add_ggt': True, 'epsilon': 1e-7},
         'graft': {'grafting_type': 'sgd', 'second_moment_decay': 0.0,
                   'skip_preconditioning_rank1': True},
         'momentum': {'momentum_decay': 0.0, 'weight_decay': 0.0}}
  p1 = {'system': 'tearfree', 'config': cfg, 'tree': [list(l) for l in layers],
        'lr': {'kind': 'const', 'v': 0.1}, 'mode': 'jit'}
  w = TFWorld(p1)
  rng = np.random.Generator(np.random.PCG64(int(plan['gseed'])))
  params = [np.asarray(rng.standard_normal(l) * 0.5, np.float32) for l in layers]
  st = w.init(params)
  durable = []
  rule, avg = plan['rule'], bool(plan['avg'])
  dead = list(plan['dead'])
  if rule == 'ggt_intrinsic_rank':
    dead = [False] * n   # 0/0 score is not a non-negative score
  if any(dead):
    ctx.probe('dead_layer')
  for t in range(plan['T']):
    ctx.op_index = t
    gs = []
    g0 = None
    for i, l in enumerate(layers):
      g = rng.standard_normal(l) * plan['scales'][i]
      if plan['tied'] and i == 1 and layers[1] == layers[0]:
        g = g0.copy()
        ctx.probe('tied_layers')
      if i == 0:
        g0 = g
      if dead[i]:
        g = np.zeros(l)
      gs.append(np.asarray(g, np.float32))
    u, st = w.update(gs, st, params)
    ctx.saw_op('STEP')
    ctx.ticks += 1
    if (t + 1) in plan['ckpts']:
      sd = serialization.to_state_dict(st)
      sd = _to_numpy(sd, np)
      durable.append((t + 1, {'inner_state': sd}))
      ctx.saw_op('CHECKPOINT')
  states = tuple(s for _, s in durable)
  idx = list(range(len(states))) if avg else [-1]
  mk = 'pipeline'
  # group structure for the oracle: axes with equal dim
  groups = {}
  for i, l in enumerate(layers):
    for a, d in enumerate(l):
      groups.setdefault(d, []).append((i, a))
  if any(len(v) > 1 and len({i for i, _ in v}) > 1 for v in groups.values()):
    ctx.probe('shared_dim_group')

  def call(states_arg=None, file_dir='', seam=None):
    if seam is not None:
      r = random.Random(seam)
      old_os, old_cc = reallocation.os, reallocation.concurrent
      reallocation.os = _ShuffleOS(old_os, r)
      reallocation.concurrent = _Concurrent(r)
      try:
        return reallocation.create_redist_dict(file_dir, idx, rule, avg, base,
                                               None)
      finally:
        reallocation.os, reallocation.concurrent = old_os, old_cc
    return reallocation.create_redist_dict('', idx, rule, avg, base, states_arg)

  res = call(states_arg=states if avg else (states[-1],))
  results = [('states', res)]
  tmp = None
  if plan['via_files']:
    from flax.training import checkpoints
    ctx.probe('via_files')
    tmp = tempfile.mkdtemp(prefix='verif-c17-', dir='/var/tmp')
    try:
      for step, s in durable:
        checkpoints.save_checkpoint(tmp, {'optimizer_state': s}, step=step,
                                    prefix='ckpt_', keep=100, overwrite=True)
      # unrelated files in the directory must not matter
      open(os.path.join(tmp, 'events.out'), 'w').close()
      for seam in plan['seam_seeds']:
        ctx.probe('order_varied')
        results.append((f'files_seam{seam}', call(file_dir=tmp, seam=seam)))
    finally:
      shutil.rmtree(tmp, ignore_errors=True)
  ref_res = results[0][1]
  for name, r in results:
    # (1) integer ranks within [1, dim]; (2) group budget
    for d, members in groups.items():
      tot = 0
      for (i, a) in members:
        try:
          k = r[f'p{i}'][a]
        except Exception:  # pylint: disable=broad-except
          ctx.violate('rank_range', mk, 'missing_entry', layer=i, axis=a,
                      via=name)
          continue
        ok = isinstance(k, (int, np.integer)) and not isinstance(k, bool) \
            and 1 <= int(k) <= d
        ctx.ev('rank_range', 'ok' if ok else 'violation')
        if not ok:
          ctx.violate('rank_range', mk, 'rank_outside_1_dim', layer=i, axis=a,
                      rank=repr(k), dim=d, via=name, rule=rule)
        else:
          tot += int(k)
      budget = len(members) * base
      # the uniform allocation it replaces is min(dim, base) per axis
      okb = tot <= budget
      ctx.ev('group_budget', 'ok' if okb else 'violation', tot / max(budget, 1))
      if not okb:
        ctx.violate('group_budget', mk, 'group_sum_exceeds_size_times_base',
                    dim=d, total=tot, budget=budget, group_size=len(members),
                    base=base, rule=rule, avg=avg, via=name)
    if r != ref_res:
      ctx.violate('order_independent', mk, 'result_depends_on_listdir_or_'
                  'executor_order', via=name)
      ctx.ev('order_independent', 'violation')
    else:
      ctx.ev('order_independent')
  # job 2: restart Sketchy with the returned allocation
  cfg2 = {k: (dict(v) if isinstance(v, dict) else v) for k, v in cfg.items()}
  cfg2['sketchy'] = dict(cfg['sketchy'], memory_alloc=ref_res)
  p2 = dict(p1, config=cfg2)
  try:
    w2 = TFWorld(p2)
    s2 = w2.init(params)
    gs = [np.asarray(rng.standard_normal(l), np.float32) for l in layers]
    u2, s2 = w2.update(gs, s2, params)
    fin = all(np.all(np.isfinite(x)) for x in w2.updates_np(u2))
    ctx.probe('job2_restarted')
    ctx.ev('restart_runs', 'ok' if fin else 'violation')
    if not fin:
      ctx.violate('restart_runs', mk, 'job2_update_nonfinite')
  except Exception as e:  # pylint: disable=broad-except
    ctx.violate('restart_runs', mk, 'job2_failed_with_returned_allocation',
                exc=type(e).__name__, msg=str(e)[:200])
    ctx.ev('restart_runs', 'violation')
  ctx.state(rule, int(avg), base, n, len(groups), int(any(dead)),
            int(plan['tied']), int(plan['via_files']))
  ctx.log.add(op='REALLOCATE', result=ref_res)
  ctx.max_clock = plan['T']
  return ctx.result()


def _to_numpy(x, np):
  if isinstance(x, dict):
    return {k: _to_numpy(v, np) for k, v in x.items()}
  return np.asarray(x)


def simplifications(plan):
  import copy
  n = len(plan['layers'])
  for i in range(n):
    if n > 1:
      c = copy.deepcopy(plan)
      for k in ('layers', 'scales', 'dead'):
        c[k] = plan[k][:i] + plan[k][i + 1:]
      yield c
  for k, v in (('via_files', False), ('tied', False), ('avg', False)):
    if plan.get(k):
      c = copy.deepcopy(plan)
      c[k] = v
      yield c
  for i in range(n):
    if plan['scales'][i] != 1.0:
      c = copy.deepcopy(plan)
      c['scales'][i] = 1.0
      yield c
