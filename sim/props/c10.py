"""C10 - low-rank packed preconditioner agrees with the dense matrix it
denotes: decided in situ in compressed-mode runs (DESIGN 5, C10)."""
from sim import ds_gen
from sim.props import common
from sim.refmodel import shapes as shp
from sim.util import derive_rng, pick, wpick

LEVEL = 'exploration'
BUDGET = {
    'quick': dict(runs=170, wall=420, timeout=600, det=4, minimise=40),
    'thorough': dict(runs=2600, wall=3000, timeout=600, det=16, minimise=200),
}
RULE = ('In situ only: Distributed Shampoo with compression_rank in +-1..3 '
        '(jit, simulated replicas, sharded), trees whose statistics mix '
        'compressed (d > |r|+2) and uncompressed sizes and need padding. Per '
        'tick: (2) the update produced through the compressed application '
        'path equals the reference\'s dense application of c(I-VV\')+V diag(e) '
        'V\' decoded from the state with the repo\'s own unpack; (3) on refresh '
        'ticks the decoded dense matrix equals the exact float64 inverse root '
        'of the stored statistics with the non-retained directions replaced '
        'by their mean, whenever the spectrum has a gap at the cut. Distinct '
        'non-trivial = distinct (mode, sign of r, |r|, padded?, refresh?, '
        'gap present?).')
COMPONENTS = common.DS_COMPONENTS
ASSUMPTIONS = [
    'clause (1) pack(unpack)=id as a statement about the two functions in '
    'isolation is not decided',
    'the ridge is existential over its admissible interval (1-D search); '
    'vacuous when the eigenvalue gap at the cut is below 1e-3 lambda_max']
EXPECTED_PROBES = ['packed_root_checked', 'packed_padded', 'negative_rank',
                   'packed_apply_checked', 'flagged_packed_applied',
                   'packed_basis_checked']


def generate(seed, idx, tier):
  rng = derive_rng(seed, 'C10', idx)
  mode, D, mesh, quant = common.choose_mode(
      rng, [('jit', 5), ('vmap', 2), ('sharded', 3)])
  x64 = rng.random() < 0.85
  cfg = ds_gen.gen_config(rng, emph={
      'eps': [(1e-1, 2), (1e-2, 2), (1e-3, 3), (1e-6, 2), (1e-12, 1)],
      'thr': [(0.1, 1)], 'beta1': pick(rng, [0.0, 0.0, 0.9]), 'wd': 0.0})
  r = pick(rng, [1, 2, 3, -1, -2, -3])
  cfg['compression_rank'] = r
  cfg['block_size'] = pick(rng, [8, 16])
  cfg['start_preconditioning_step'] = pick(rng, [0, 0, 1])
  cfg['graft_type'] = pick(rng, [0, 0, 1, 2, 3])
  fd = mode != 'sharded' and rng.random() < 0.25
  if fd:
    # packed sketches written by the frequent-directions root: the only place
    # where the has-zeros flag is ever set
    r = abs(r)
    x64 = False
    cfg['compression_rank'] = r
    cfg['frequent_directions'] = True
    cfg['statistics_compute_steps'] = cfg['preconditioning_compute_steps'] = \
        pick(rng, [1, 1, 2])
    cfg['precondtioner_type'] = 1
  cfg = common.constrain(cfg, mode, False, x64)
  cfg['reuse_preconditioner'] = fd
  tree = ds_gen.fix_tree_for_config(rng, ds_gen.gen_tree(rng), cfg)
  if mode == 'sharded':
    n = shp.tree_layout(tree, cfg)['n_stats']
    if not common.sharded_mesh_ok(n, D, mesh):
      mesh = 1
  T = rng.randrange(5, 14) if tier == 'quick' else rng.randrange(8, 31)
  tiny = not fd and rng.random() < 0.15
  if tiny:
    # float32 roots of statistics far below 1: gradients ~1e-5, the initial
    # epsilon*I decayed away
    x64 = False
    cfg['beta2'] = pick(rng, [0.5, 0.9])
    cfg['matrix_epsilon'] = pick(rng, [1e-6, 1e-12])
    T = rng.randrange(10, 18)
  ops = common.gen_history(rng, cfg, len(tree), T, 0.0, scale_jumps=0.3)
  if tiny:
    sc = 10.0 ** -rng.randrange(4, 7)
    for op in ops:
      if op['op'] == 'STEP':
        op['scale'] = sc
        op.pop('leaf_scales', None)
  if fd:
    # zero / low-rank ticks make deflated eigenvalues and the tail exactly zero
    for op in ops:
      if op['op'] == 'STEP' and rng.random() < 0.4:
        op['kind'] = pick(rng, ['zero', 'lowrank', 'onehot_leaf'])
        op['rank'] = 1
        op['hot'] = rng.randrange(len(tree))
  return {'system': 'ds', 'class': f"{mode}_{'fd' if fd else 'tiny' if tiny else 'r' + ('neg' if r < 0 else 'pos')}",
          'x64': x64, 'mode': mode, 'D': D, 'mesh': mesh, 'config': cfg,
          'tree': tree, 'lr': ds_gen.gen_lr(rng),
          'param_seed': rng.randrange(1000), 'ops': ops,
          'oracles': ['packed', 'refine', 'graft']}


def run(plan):
  import numpy as np
  from precondition import distributed_shampoo as dsm
  from sim import ds_oracles as orc
  from sim import ds_run
  from sim.refmodel import ds as ref

  # decode the packed layout with the repo's own unpack, so a consistent
  # re-layout of the fields is not an alarm
  def repo_unpack(packed, r):
    V, eig, inv, const, tail, flag = dsm._fd_low_rank_unpack(
        np.asarray(packed, np.float32), abs(r))
    return (np.asarray(V, np.float64), np.asarray(eig, np.float64),
            np.asarray(inv, np.float64), float(const), float(tail), bool(flag))
  ref.unpack = repo_unpack

  def packed(ctx, rec):
    w, view = rec['world'], rec['view']
    cfg, t = w.cfg, rec['t']
    new = rec['new']
    mk = orc._modekey(rec)
    r = int(cfg['compression_rank'])
    pt, dc = ref.precond_tick(cfg, w.lr_spec, t)
    thr = float(cfg.get('inverse_failure_threshold', 0.1))
    eps = float(cfg.get('matrix_epsilon', 1e-6))
    rel = bool(cfg.get('relative_matrix_epsilon', True))
    if r < 0:
      ctx.probe('negative_rank')
    if cfg.get('frequent_directions'):
      # sketches are checked by C09; here only the application path matters.
      # Probe: was a flagged (has-zeros) packed preconditioner applied?
      for i, leaf in enumerate(view.layout['leaves']):
        for j, (_, _, d) in enumerate(leaf['stats']):
          if shp.precond_dim(r, d) != d:
            X = view.precond(new, i, j)
            if ref.dense_from_packed(X, r) is None:
              ctx.probe('flagged_packed_applied')
      return
    for i, leaf in enumerate(view.layout['leaves']):
      if i in rec['poisoned']:
        continue
      p = leaf['exponent']
      for j, (_, _, d) in enumerate(leaf['stats']):
        if shp.precond_dim(r, d) == d:
          continue
        ctx.probe('packed_apply_checked')
        if d < view.layout['max_size']:
          ctx.probe('packed_padded')
        if not pt or dc:
          continue
        err = orc._err(view, new, i, j)
        if err is None or not (np.isfinite(err) and err < thr):
          continue
        S = view.stat(new, i, j)
        X = view.precond(new, i, j)
        dense = ref.dense_from_packed(X, r)
        if dense is None or not np.all(np.isfinite(S)):
          ctx.ev('packed_root', 'vacuous')
          continue
        w_, U = np.linalg.eigh(0.5 * (S + S.T))
        lmax = max(float(w_[-1]), 0.0)
        k = abs(r)
        # the retained directions form an orthonormal basis inside the real
        # (unpadded) dimensions, whichever vectors of a degenerate eigenspace
        # were picked. Padding directions have eigenvalue 0 and every real
        # direction at least the ridge, so the two cannot mix as long as the
        # ridge is far above the eigensolver's noise: float64 roots with
        # eps >= ~1e-7 (the ridge is eps * lambda-hat, lambda-hat assumed within
        # 1e4 of lambda_max); float32 roots are not judged.
        x64_ = bool(w.plan.get('x64', True))
        Dm = int(view.layout['max_size'])
        if x64_ and rel and eps * 1e-4 * lmax >= 1000 * 8 * Dm * 2.0 ** -53 * lmax \
            and lmax > 1e-30:
          Vb = ref.unpack(X, r)[0]
          gram = Vb.T @ Vb
          dev = float(np.max(np.abs(gram - np.eye(gram.shape[0]))))
          okb = dev <= 1e-3
          ctx.probe('packed_basis_checked')
          ctx.ev('packed_basis', 'ok' if okb else 'violation', dev / 1e-3)
          if not okb:
            ctx.violate('packed_basis', mk, 'retained_directions_not_orthonormal_'
                        'in_real_dimensions', tick=t, leaf=i, stat=j, dev=dev,
                        d=d, r=r, padded=bool(d < Dm))
        else:
          ctx.ev('packed_basis', 'vacuous')
        # eigenvalue gap at the cut
        srt = w_[::-1] if r > 0 else w_
        gap = abs(srt[k - 1] - srt[k])
        if gap < 1e-3 * max(lmax, 1e-30):
          ctx.ev('packed_root', 'vacuous')
          ctx.state(mk, int(r > 0), k, int(d < view.layout['max_size']), 1, 0)
          continue
        lo = eps * 1e-6 if rel else eps
        hi = eps * max(lmax, 1e-6) * (1 + 1e-6) if rel else eps
        order = np.argsort(-w_) if r > 0 else np.argsort(w_)
        keep, rest = order[:k], order[k:]
        # float32 statistics carry eigenvalue noise ~ n u lambda_max; a root
        # value (lambda+d)^(-1/p) is only determined where lambda+d is well
        # above it
        # (the statistics are float32; the ridge is added and the
        # eigendecomposition taken in the compute precision, where the
        # regularised matrix has scale lambda_max + ridge)
        ucomp = 2.0 ** -53 if w.plan.get('x64', True) else 2.0 ** -24
        noise = 8 * d * (2.0 ** -24 * max(lmax, 1e-30) + ucomp * (lmax + hi))
        keep_ok = float(np.min(w_[keep])) + lo >= 1000 * noise
        rest_ok = len(rest) == 0 or float(np.min(w_[rest])) + lo >= 1000 * noise
        used = ([float(np.min(w_[keep]))] if keep_ok else []) + (
            [float(np.min(w_[rest]))] if rest_ok and len(rest) else [])
        rel_noise = noise / (min(used) + lo) if used else 0.0
        V, _, inv, const, _, _ = ref.unpack(X, r)
        Vk = U[:, keep]
        if float(w_[0]) + lo <= noise:
          # the regularised input is not numerically positive definite
          # (float32 statistics have eigenvalues of -n u lambda_max): outside
          # the property's quantifier (PSD after ridge)
          ctx.ev('packed_root', 'vacuous')
          ctx.probe('packed_not_psd_after_ridge')
          continue
        # retained subspace (gap-conditioned)
        proj = float(np.max(np.abs(V @ V.T - Vk @ Vk.T)))
        # eigenvector sensitivity: (float32 eigh error ~ c n u lambda_max) / gap
        tol_p = 1e-3 + 32 * noise / gap
        if tol_p > 0.02:
          ctx.ev('packed_subspace', 'vacuous')
          ctx.ev('packed_root', 'vacuous')
          continue
        ctx.probe('packed_root_checked')
        okp = proj <= tol_p
        ctx.ev('packed_subspace', 'ok' if okp else 'violation', proj / tol_p)
        if not okp:
          ctx.violate('packed_root', mk, 'retained_subspace_' +
                      ('negative_rank' if r < 0 else 'positive_rank'), tick=t,
                      leaf=i, stat=j, proj_err=proj, tol=tol_p, d=d, r=r, p=p)
        def mismatch(dd):
          ev = np.maximum(w_ + dd, dd)
          with np.errstate(divide='ignore'):
            rv = np.where(ev > 0, ev ** (-1.0 / p), 0.0)
          e1 = 0.0
          if keep_ok:
            # stored retained root values, matched through the eigenvectors
            got = np.array([float(V[:, a] @ ((Vk * rv[keep]) @ (Vk.T @ V[:, a])))
                            for a in range(k)])
            e1 = float(np.max(np.abs(np.sort(got) - np.sort(inv)) /
                              np.maximum(np.abs(np.sort(inv)), 1e-300)))
          e2 = 0.0
          if rest_ok and len(rest):
            c = float(np.mean(rv[rest]))
            e2 = abs(c - const) / max(abs(c), 1e-300)
          return max(e1, e2)
        # existential in the ridge: coarse log grid, then golden-section
        # refinement around the best grid point
        if hi > lo > 0:
          grid = list(np.exp(np.linspace(np.log(lo), np.log(hi), 40)))
        elif hi > lo:
          grid = list(np.linspace(lo, hi, 40))
        else:
          grid = [lo]
        vals = [mismatch(dd) for dd in grid]
        bi = int(np.argmin(vals))
        best = (vals[bi], grid[bi])
        if len(grid) > 1:
          a_, b_ = grid[max(bi - 1, 0)], grid[min(bi + 1, len(grid) - 1)]
          gr = 0.6180339887498949
          for _ in range(40):
            c_ = b_ - gr * (b_ - a_)
            d_ = a_ + gr * (b_ - a_)
            if mismatch(c_) < mismatch(d_):
              b_ = d_
            else:
              a_ = c_
          mid = 0.5 * (a_ + b_)
          vm = mismatch(mid)
          if vm < best[0]:
            best = (vm, mid)
        if not keep_ok and not rest_ok:
          ctx.ev('packed_root', 'vacuous')
        else:
          tol = 2e-3 + 4.0 * rel_noise
          ok = best[0] <= tol
          ctx.ev('packed_root', 'ok' if ok else 'violation', best[0] / tol)
          if keep_ok and rest_ok:
            ctx.probe('packed_root_fully_checked')
          if not ok:
            ctx.violate('packed_root', mk, 'negative_rank' if r < 0 else
                        'positive_rank', tick=t, leaf=i, stat=j,
                        rel_err=best[0], tol=tol, d=d, r=r, p=p,
                        keep_ok=keep_ok, rest_ok=rest_ok)
        ctx.state(mk, int(r > 0), k, int(d < view.layout['max_size']), 1, 1)
  ds_run.register('packed', packed)
  return ds_run.run(plan, 'C10')


def simplifications(plan):
  from sim.harness import generic_simplifications
  return generic_simplifications(plan)
