"""Shared pieces of the Distributed Shampoo property modules (pure python)."""
from sim import ds_gen
from sim.grads import FAULT_KINDS
from sim.refmodel import shapes as shp
from sim.util import pick, wpick

DS_COMPONENTS = {
    'real': ['precondition.distributed_shampoo (init/update, inverse roots, '
             'gate, batch/unbatch, all_gather)', 'precondition.quantization_utils',
             'jax/XLA CPU', 'optax', 'flax.serialization (msgpack)'],
    'simulated': ['replicas: jax.vmap(update, axis_name) in one process',
                  'clock: the count leaf (ticked, jumped, rolled back)',
                  'storage: in-memory durable/volatile checkpoint store',
                  'crash: optimizer object, jit cache and live state dropped'],
    'stub': ['model/loss/data: seeded synthetic gradient source with fault '
             'injector', 'parameters: constants or p += update'],
}


def choose_mode(rng, weights=None):
  """-> (mode, D, mesh, quantized)"""
  w = weights or [('jit', 4), ('vmap', 2), ('vmapq', 2), ('sharded', 3)]
  m = wpick(rng, w)
  if m == 'jit':
    return 'jit', 1, 1, False
  if m in ('vmap', 'vmapq'):
    return 'vmap', pick(rng, [1, 2, 3, 4, 5]), 1, m == 'vmapq'
  if m == 'sharded':
    D = pick(rng, [1, 2, 3, 4, 8])
    return 'sharded', D, pick(rng, [1, 2]), False
  raise ValueError(m)


def constrain(cfg, mode, quantized, x64):
  cfg = dict(cfg)
  if mode == 'sharded':
    cfg['reuse_preconditioner'] = False   # crashes today (C07 finding)
  if quantized:
    cfg['best_effort_memory_usage_reduction'] = True
    cfg['compression_rank'] = 0
  return cfg


def sharded_mesh_ok(n_stats, D, mesh):
  tot = n_stats + (-n_stats % D) if n_stats else D
  return tot % mesh == 0


def gen_history(rng, cfg, n_leaves, T, fault_rate, fault_kinds=None,
                restores=True, rejit=True, jumps=None, scale_jumps=0.15):
  """Op list: STEPs with faults biased onto schedule points, checkpoints,
  crash/restore, rejit, clock jumps."""
  pts = set(ds_gen.schedule_points(cfg, T))
  ops = []
  have_ckpt = False
  # a persistent gradient scale for the whole history (a model whose gradients
  # are uniformly small or large), on top of the per-tick jumps
  base = 10.0 ** rng.randrange(-6, 7) if rng.random() < 0.25 else 1.0
  for t in range(T):
    fault = None
    if fault_rate > 0:
      pr = fault_rate * (2.0 if t in pts else 0.5)
      if rng.random() < pr:
        fault = ds_gen.gen_fault(rng, n_leaves, fault_kinds)
    op = ds_gen.gen_step(rng, n_leaves, fault=fault,
                         scale_jump=rng.random() < scale_jumps)
    if base != 1.0:
      op['scale'] = float(op.get('scale', 1.0)) * base
    ops.append(op)
    r = rng.random()
    if restores and r < 0.12:
      ops.append({'op': 'CHECKPOINT', 'sync': rng.random() < 0.8})
      have_ckpt = True
    elif restores and have_ckpt and r < 0.18:
      ops.append({'op': 'CRASH_RESTORE', 'which': rng.randrange(-2, 1)})
    elif rejit and r < 0.21:
      ops.append({'op': 'REJIT'})
    elif jumps and r < 0.21 + jumps:
      ops.append({'op': 'CLOCK_JUMP', 'to': gen_jump_target(rng, cfg)})
  return ops


def gen_jump_target(rng, cfg):
  p = cfg.get('preconditioning_compute_steps', 1)
  s = cfg.get('statistics_compute_steps', 1)
  S = cfg.get('start_preconditioning_step', 5)
  # (1 << 24: the first step index a float32 cannot represent exactly)
  base = pick(rng, [p, s, p * s, 10, 1000, 1 << 16, 1 << 20, 1 << 24])
  k = rng.randrange(1, 6) if base < (1 << 24) else rng.randrange(1, 4)
  cand = [base * k - 1, base * k, base * k + 1, max(S - 1, 0), S, S + 1]
  return max(0, pick(rng, cand))
