"""C08 - block-diagonal semantics: blocks and parameters do not influence
each other. Twin runs: A one blocked tensor, B its blocks as separate leaves,
C = A plus companion leaves."""
from sim.util import derive_rng, pick, wpick

LEVEL = 'exploration'
BUDGET = {
    'quick': dict(runs=150, wall=420, timeout=600, det=4, minimise=40),
    'thorough': dict(runs=2200, wall=3000, timeout=600, det=16, minimise=200),
}
RULE = ('Each run = three worlds stepped in lock-step on the same faulted '
        'history: A a blocked tensor (1 or 2 blocked axes, ragged last block '
        'for Distributed Shampoo), B its blocks as separate leaves, C = A plus '
        'companion leaves of arbitrary shape and scale; gradients carry '
        'per-block scales spanning 1e-6..1e6, one-hot blocks and zero blocks. '
        'Per tick: A\'s blocks equal B\'s updates (graft none) or are parallel '
        'to them (grafted), and A\'s update is unchanged by C\'s companions. '
        'Distinct non-trivial = distinct (system, graft, blocked axes, ragged?, '
        'scale spread decade, gradient kind).')
COMPONENTS = {
    'real': ['precondition.distributed_shampoo', 'precondition.tearfree '
             '(shampoo)', 'jax/XLA CPU'],
    'simulated': ['three optimizer instances in lock-step (twin runs)'],
    'stub': ['gradient source with per-block scales'],
}
ASSUMPTIONS = ['momentum and weight decay off so that updates expose the '
               'per-tick direction', 'comparisons are vacuous where the root '
               'application is numerically ill-conditioned (forward error '
               'bound above 1e-3 of the result)']
EXPECTED_PROBES = ['replicated_worlds', 'scale_spread_ge_1e6', 'onehot_block', 'ragged_block',
                   'two_blocked_axes', 'companion_checked', 'solo_block_checked',
                   'small_parameter_with_larger_companion',
                   'unblocked_axis_in_blocked_tensor']


def generate(seed, idx, tier):
  rng = derive_rng(seed, 'C08', idx)
  sysm = pick(rng, ['ds', 'ds', 'tearfree'])
  b = pick(rng, [2, 3, 4])
  two = rng.random() < 0.5
  small = sysm == 'ds' and rng.random() < 0.25
  if sysm == 'ds':
    ragged = rng.random() < 0.4 and not small
    d0 = b * pick(rng, [2, 3]) + (rng.randrange(1, b) if ragged else 0)
    d1 = b * pick(rng, [2, 3]) if two else rng.randrange(2, b + 1)
    if small:
      # a parameter smaller than the block size next to companions with
      # larger statistics: its statistics are padded only in world C
      b = pick(rng, [4, 6, 8])
      d0, d1, two = rng.randrange(2, b), rng.randrange(2, b), False
    graft = pick(rng, [0, 0, 1, 2])
    cfg = {'block_size': b, 'best_effort_shape_interpretation': False,
           'beta1': 0.0, 'beta2': pick(rng, [1.0, 0.999, 0.9, 0.5]),
           'weight_decay': 0.0, 'start_preconditioning_step': 0,
           'graft_type': graft, 'eigh': rng.random() < 0.4,
           'matrix_epsilon': pick(rng, [1e-1, 1e-2, 1e-3, 1e-6]),
           'relative_matrix_epsilon': True, 'nesterov': rng.random() < 0.5,
           'preconditioning_compute_steps': pick(rng, [1, 1, 2]),
           'statistics_compute_steps': 1}
  else:
    ragged = False
    d0 = b * pick(rng, [2, 3])
    if not two and b == 2:
      two = True
    d1 = b * pick(rng, [2, 3]) if two else rng.randrange(2, b)
    graft = pick(rng, ['none', 'none', 'sgd', 'rmsprop'])
    cfg = {'second_order': 'shampoo', 'merge_dims': 2,
           'shampoo': {'block_size': b, 'update_preconditioners_freq': 1,
                       'update_statistics_freq': 1,
                       'second_moment_decay': pick(rng, [1.0, 0.999, 0.9])},
           'graft': {'grafting_type': graft,
                     'second_moment_decay': 0.9 if graft == 'rmsprop' else 0.0,
                     'start_preconditioning_step': 0, 'epsilon': 1e-23,
                     'skip_preconditioning_rank1': True},
           'momentum': {'momentum_decay': 0.0, 'weight_decay': 0.0}}
  T = rng.randrange(3, 9) if tier == 'quick' else rng.randrange(4, 17)
  if sysm == 'ds' and cfg['beta2'] == 0.5:
    # short-memory statistics run long enough for the initial epsilon*I to
    # decay away (0.5^20 = 1e-6): the regime every real training run is in
    # after 1/(1-beta2) steps, and the only one where rank-deficient
    # statistics meet the relative ridge
    T = rng.randrange(18, 27)
  spread = pick(rng, [0, 1, 2, 3, 6, 6, 12])
  ops = []
  for t in range(T):
    ops.append({'op': 'STEP', 'gseed': rng.randrange(1 << 30),
                'kind': wpick(rng, [('scaled', 6), ('onehot_block', 2),
                                    ('zero_blocks', 2)]),
                'hot': rng.randrange(64)})
  # companions of rank 1..3 (a bias next to a matrix has another exponent)
  companions = [[rng.randrange(2, 9) for _ in range(pick(rng, [1, 2, 2, 3]))]
                for _ in range(rng.randrange(1, 3))]
  if small:
    companions[0] = [b, rng.randrange(2, 9)]
  if sysm == 'tearfree':
    # (tearfree shampoo rejects tensors with more than two large dims)
    companions = [(c + [rng.randrange(2, 9)])[:2] if len(c) != 2 else c
                  for c in companions]
  shape = [d0, d1]
  extra = None
  if not small and b >= 3 and rng.random() < 0.35:
    # a small unblocked axis before, between or after the blocked ones (an
    # attention projection [model, heads, head_dim] has one in the middle)
    extra = rng.randrange(0, 3)
    shape.insert(extra, rng.randrange(2, min(b, 5)))
  return {'system': sysm,
          'class': f"{sysm}_{'2ax' if two else '1ax'}{'_r3' if extra is not None else ''}",
          'x64': True, 'config': cfg, 'shape': shape, 'block': b,
          'spread': spread, 'scale_seed': rng.randrange(1 << 30),
          # overall gradient scale of the blocked tensor: small statistics are
          # where the ridge (and the eigenvalue estimate scaling it) decides
          # the root
          'base_scale': 1.0 if rng.random() < 0.6 else 10.0 ** -rng.randrange(2, 7),
          'companions': companions,
          'companion_scale': 10.0 ** rng.randrange(-4, 5),
          'lr': {'kind': 'const', 'v': pick(rng, [1.0, 0.1])},
          'param_seed': rng.randrange(1000), 'ops': ops, 'ragged': ragged,
          'two': two, 'small': small, 'solo_block': rng.randrange(64),
          # data-parallel replicas: parameters share the per-replica batches
          'replicas': pick(rng, [2, 3]) if sysm == 'ds' and rng.random() < 0.3
          else 1,
          # position of the tensor among its companions in world C
          'a_index': rng.randrange(0, 3)}


def run(plan):
  import numpy as np
  from sim.ctx import Ctx
  from sim.ds_world import sha_leaves
  from sim.refmodel import shapes as shp
  from sim.worlds import make_world
  ctx = Ctx(plan, 'C08')
  sysm = plan['system']
  tshape = [int(x) for x in plan['shape']]
  b = plan['block']
  grid = shp.block_grid(tshape, b)
  if len(tshape) > 2:
    ctx.probe('unblocked_axis_in_blocked_tensor')
  nblk = len(grid)
  fdt = np.float64 if sysm == 'tearfree' else np.float32
  rs = np.random.Generator(np.random.PCG64(int(plan['scale_seed'])))
  exps = rs.uniform(-plan['spread'] / 2.0, plan['spread'] / 2.0, size=nblk)
  scales = 10.0 ** exps * float(plan.get('base_scale', 1.0))
  if plan.get('base_scale', 1.0) != 1.0:
    ctx.probe('small_base_scale')
  if plan['spread'] >= 6:
    ctx.probe('scale_spread_ge_1e6')
  if plan.get('ragged'):
    ctx.probe('ragged_block')
  if plan.get('two'):
    ctx.probe('two_blocked_axes')
  comp = [tuple(s) for s in plan['companions']]
  pa = dict(plan, tree=[list(tshape)])
  pb = dict(plan, tree=[list(bs) for _, bs in grid])
  ai = min(int(plan.get('a_index', 0)), len(comp))
  pc = dict(plan, tree=[list(s) for s in comp[:ai]] + [list(tshape)] +
            [list(s) for s in comp[ai:]])
  reps = int(plan.get('replicas', 1))
  for p_ in (pa, pb, pc):
    p_['mode'] = 'vmap' if reps > 1 else 'jit'
    p_['D'] = reps
  if reps > 1:
    ctx.probe('replicated_worlds')
  A, B, C = make_world(pa), make_world(pb), make_world(pc)
  solo = plan.get('solo_block', 0) % nblk
  pb1 = dict(plan, tree=[list(grid[solo][1])],
             mode='vmap' if reps > 1 else 'jit', D=reps)
  B1 = make_world(pb1)
  prng = np.random.Generator(np.random.PCG64(int(plan['param_seed'])))
  theta = np.asarray(prng.standard_normal(tuple(tshape)) * 0.5, fdt)
  theta_c = [np.asarray(prng.standard_normal(s) * 0.5, fdt) for s in comp]
  par_a = [theta]
  par_b = [np.ascontiguousarray(theta[sl]) for sl, _ in grid]
  par_c = theta_c[:ai] + [theta] + theta_c[ai:]
  sa, sb, sc = A.init(par_a), B.init(par_b), C.init(par_c)
  par_b1 = [par_b[solo]]
  sb1 = B1.init(par_b1)
  if plan.get('small'):
    ctx.probe('small_parameter_with_larger_companion')
  mk = sysm
  graft = plan['config'].get('graft_type', 1) if sysm == 'ds' else \
      plan['config']['graft']['grafting_type']
  grafted = graft not in (0, 'none')
  for t, op in enumerate(plan['ops']):
    ctx.op_index = t
    ctx.saw_op('STEP')
    rng = np.random.Generator(np.random.PCG64(int(op['gseed'])))
    g = rng.standard_normal(tuple(tshape))
    hot = op['hot'] % nblk
    for k, (sl, _) in enumerate(grid):
      s = scales[k]
      if op['kind'] == 'onehot_block':
        s = s if k == hot else 0.0
      elif op['kind'] == 'zero_blocks' and (k + op['hot']) % 3 == 0:
        s = 0.0
      g[sl] *= s
    if op['kind'] == 'onehot_block':
      ctx.probe('onehot_block')
    g = np.asarray(g, fdt)
    gc = [np.asarray(rng.standard_normal(s) * plan['companion_scale'], fdt)
          for s in comp]
    ua, sa = A.update([g], sa, par_a)
    ub, sb = B.update([np.ascontiguousarray(g[sl]) for sl, _ in grid], sb, par_b)
    uc, sc = C.update(gc[:ai] + [g] + gc[ai:], sc, par_c)
    ub1, sb1 = B1.update([np.ascontiguousarray(g[grid[solo][0]])], sb1, par_b1)
    r0 = (lambda x: x[0]) if reps > 1 else (lambda x: x)
    ub1 = np.asarray(r0(B1.updates_np(ub1)[0]), np.float64)
    ua = np.asarray(r0(A.updates_np(ua)[0]), np.float64)
    ub = [np.asarray(r0(x), np.float64) for x in B.updates_np(ub)]
    uc = np.asarray(r0(C.updates_np(uc)[ai]), np.float64)
    u = 2.0 ** -53 if sysm == 'tearfree' else 2.0 ** -24
    # companion twin: A's update is unchanged by the other parameters
    ctx.probe('companion_checked')
    if np.all(np.isfinite(ua)) and np.all(np.isfinite(uc)):
      for k, (sl, _) in enumerate(grid):
        x, y = ua[sl], uc[sl]
        scb = max(float(np.max(np.abs(x))), float(np.max(np.abs(y))))
        tol = (1e-4 if sysm == 'ds' else 1e-8) * scb
        dlt = float(np.max(np.abs(x - y)))
        ok = dlt <= tol + 1e-300
        ctx.ev('companion_twin', 'ok' if ok else 'violation',
               dlt / (tol + 1e-300))
        if not ok:
          ctx.violate('companion_twin', mk, 'update_depends_on_other_parameters',
                      tick=t, block=k, diff=dlt, scale=scb)
    else:
      ctx.ev('companion_twin', 'vacuous')
    # block twin (all blocks as leaves of one tree, and one block optimized
    # entirely on its own)
    pairs = [(k, ua[sl], ub[k], 'block_twin') for k, (sl, _) in enumerate(grid)]
    pairs.append((solo, ua[grid[solo][0]], ub1, 'solo_block_twin'))
    ctx.probe('solo_block_checked')
    for k, x, y, oname in pairs:
      sl = grid[k][0]
      if not (np.all(np.isfinite(x)) and np.all(np.isfinite(y))):
        ctx.ev(oname, 'vacuous')
        continue
      nx, ny = float(np.linalg.norm(x)), float(np.linalg.norm(y))
      gb = g[sl]
      if not np.any(gb):
        ok = nx == 0.0 and ny == 0.0 or (nx <= 1e-30 and ny <= 1e-30)
        ctx.ev(oname, 'ok' if ok else 'violation')
        if not ok:
          ctx.violate(oname, mk, 'zero_gradient_block_gets_update',
                      tick=t, block=k, norm_blocked=nx, norm_separate=ny)
        continue
      if grafted:
        if ny == 0.0 and nx == 0.0:
          ctx.ev(oname)
          continue
        if (nx == 0.0) != (ny == 0.0):
          ctx.violate(oname, mk, 'block_zeroed_by_other_blocks_scale',
                      tick=t, block=k, norm_blocked=nx, norm_separate=ny,
                      scale=float(scales[k]), max_scale=float(np.max(scales)))
          ctx.ev(oname, 'violation')
          continue
        dirn = float(np.linalg.norm(x / nx - y / ny))
        tol = 2e-3 if sysm == 'ds' else 1e-6
        ok = dirn <= tol
        ctx.ev(oname, 'ok' if ok else 'violation', dirn / tol)
        if not ok:
          ctx.violate(oname, mk, 'block_direction_differs', tick=t,
                      block=k, angle=dirn, scale=float(scales[k]),
                      max_scale=float(np.max(scales)))
      else:
        scb = max(float(np.max(np.abs(x))), float(np.max(np.abs(y))))
        tol = (2e-3 if sysm == 'ds' else 1e-6) * scb
        dlt = float(np.max(np.abs(x - y)))
        ok = dlt <= tol + 1e-300
        ctx.ev(oname, 'ok' if ok else 'violation', dlt / (tol + 1e-300))
        if not ok:
          pred = 'block_zeroed_by_other_blocks_scale' if (
              nx == 0.0 and ny > 0) else 'block_update_differs'
          ctx.violate(oname, mk, pred, tick=t, block=k, diff=dlt,
                      scale=float(scales[k]), max_scale=float(np.max(scales)))
    ctx.ticks += 1
    ctx.log.add(op='STEP', t=t, a=sha_leaves({'a': ua}), c=sha_leaves({'c': uc}))
    ctx.state(sysm, str(graft), int(plan.get('two', False)),
              int(plan.get('ragged', False)), plan['spread'], op['kind'])
  ctx.max_clock = ctx.ticks
  return ctx.result()


def simplifications(plan):
  import copy
  ops = plan['ops']
  for i, op in enumerate(ops):
    if op['kind'] != 'scaled':
      c = copy.deepcopy(plan)
      c['ops'][i]['kind'] = 'scaled'
      yield c
  if plan['spread']:
    for s in (0, 3):
      if s < plan['spread']:
        c = copy.deepcopy(plan)
        c['spread'] = s
        yield c
  if len(plan['companions']) > 1:
    c = copy.deepcopy(plan)
    c['companions'] = plan['companions'][:1]
    yield c
