"""C07 - state contract: shapes preserved, layout stable, every accepted
configuration runs (or is rejected explicitly)."""
from sim import ds_gen, tf_gen
from sim.props import common
from sim.refmodel import shapes as shp
from sim.util import derive_rng, pick, wpick

LEVEL = 'exploration'
BUDGET = {
    'quick': dict(runs=160, wall=480, timeout=600, det=4, minimise=40),
    'thorough': dict(runs=3000, wall=3000, timeout=600, det=16, minimise=200),
}
RULE = ('Each run = one configuration drawn from EVERY constructor argument of '
        'distributed_shampoo (incl. compression, frequent directions, gradient '
        'averaging, reuse/reset, LOBPCG, INPUT/OUTPUT, block size 1, metrics '
        'off, quantization, simulated replicas, sharding, x64 on/off), sm3 or '
        'tearfree, on a tree of rank 0-4 tensors with unit dims (or the empty '
        'tree), stepped 1..T times with a checkpoint restore; the outcome is '
        'classified as success / explicit rejection / internal error, and on '
        'success the update and state layouts are checked, incl. use of the '
        'state as a lax.scan carry and as a from_bytes target and, in sharded '
        'mode, agreement of init / declared shapes+dtypes / partition specs. '
        'Distinct non-trivial = distinct (system, mode, outcome class, feature '
        'flags) tuples.')
COMPONENTS = dict(common.DS_COMPONENTS)
ASSUMPTIONS = [
    'explicit rejection = an exception raised by a `raise` statement, or an '
    '`assert` whose message contains words (a string literal), in a frame of '
    'the repository; anything else (bare assert, assert that only dumps a '
    'value, UnboundLocalError, IndexError, errors raised from inside '
    'JAX/XLA) is an internal error',
    'LOBPCG is only drawn for matrix sizes its JAX implementation accepts']
EXPECTED_PROBES = ['explicit_rejection', 'success', 'scan_carry_checked',
                   'restore_checked', 'sharded_decl_checked', 'empty_tree',
                   'rank0_leaf', 'unit_dim_leaf']


def _wild_shape(rng):
  rank = wpick(rng, [(0, 2), (1, 3), (2, 6), (3, 3), (4, 1)])
  return [wpick(rng, [(1, 3), (2, 2), (3, 2), (4, 3), (5, 1), (6, 2), (8, 2),
                      (9, 1)]) for _ in range(rank)]


def gen_ds(rng, tier):
  mode, D, mesh, quant = common.choose_mode(
      rng, [('jit', 5), ('vmap', 2), ('vmapq', 2), ('sharded', 3)])
  x64 = rng.random() < 0.5
  cfg = ds_gen.gen_config(rng)
  # everything the safe generators of the other properties stay away from
  cfg['block_size'] = wpick(rng, [(1, 2), (2, 2), (3, 2), (4, 3), (8, 2), (16, 1)])
  cfg['precondtioner_type'] = wpick(rng, [(1, 4), (2, 2), (3, 2)])
  cfg.pop('best_effort_shape_interpretation', None)
  if rng.random() < 0.2:
    cfg['best_effort_shape_interpretation'] = False
  cfg['skip_preconditioning_rank_lt'] = wpick(rng, [(1, 4), (2, 1), (0, 1)])
  cfg['generate_training_metrics'] = rng.random() < 0.7
  cfg['reuse_preconditioner'] = rng.random() < 0.3
  feat = wpick(rng, [('plain', 5), ('lowrank', 2), ('fd', 3), ('lobpcg', 1)])
  if feat in ('lowrank', 'fd'):
    cfg['compression_rank'] = pick(rng, [1, 2, -1] if feat == 'lowrank' else [1, 2])
    cfg['block_size'] = pick(rng, [4, 8, 16])
  if feat == 'fd':
    cfg['frequent_directions'] = True
    cfg['statistics_compute_steps'] = cfg['preconditioning_compute_steps']
    cfg['average_grad'] = rng.random() < 0.5
    cfg['reset_preconditioner'] = rng.random() < 0.3
    cfg['generate_fd_metrics'] = rng.random() < 0.3
    if rng.random() < 0.8:
      cfg['reuse_preconditioner'] = True
  if feat == 'lobpcg':
    cfg['lobpcg_topk_precondition'] = 1
    cfg['block_size'] = 16
    cfg['eigh'] = False
  if quant:
    cfg['best_effort_memory_usage_reduction'] = True
  elif rng.random() < 0.15:
    cfg['best_effort_memory_usage_reduction'] = True   # momentum only
  n = wpick(rng, [(0, 1), (1, 4), (2, 4), (3, 2)])
  tree = [_wild_shape(rng) for _ in range(n)]
  if mode == 'sharded' and feat == 'plain' and rng.random() < 0.35:
    # parameters excluded by size next to small preconditioned ones: the
    # declared global statistics size must be computed with the same exclusion
    # rule as the state itself
    cfg['skip_preconditioning_dim_size_gt'] = pick(rng, [3, 5, 7])
    cfg['block_size'] = pick(rng, [8, 16])
    tree.append([pick(rng, [8, 9]), pick(rng, [2, 3])])
    tree.append([pick(rng, [2, 3]), pick(rng, [2, 3])])
  if feat == 'lobpcg':
    tree = [[pick(rng, [8, 9, 10]), pick(rng, [8, 9, 10])] for _ in range(max(n, 1))]
  if feat in ('lowrank', 'fd') and rng.random() < 0.7:
    tree.append([pick(rng, [6, 8, 9]), pick(rng, [2, 6])])
  if mode == 'sharded':
    nst = shp.tree_layout(tree, cfg)['n_stats']
    if not common.sharded_mesh_ok(nst, D, mesh):
      mesh = 1
  T = rng.randrange(1, 5)
  ops = [ds_gen.gen_step(rng, max(len(tree), 1)) for _ in range(T)]
  return {'system': 'ds', 'class': f'ds_{mode}{"_q" if quant else ""}_{feat}',
          'x64': x64, 'mode': mode, 'D': D, 'mesh': mesh, 'config': cfg,
          'tree': tree, 'lr': ds_gen.gen_lr(rng),
          'param_seed': rng.randrange(1000), 'ops': ops, 'feat': feat}


def gen_sm3(rng, tier):
  cfg = {'beta1': pick(rng, [0.0, 0.5, 0.9, 1.0]),
         'beta2': pick(rng, [1.0, 0.999, 0.9]),
         'weight_decay': pick(rng, [0.0, 0.01]),
         'normalize_grads': rng.random() < 0.3}
  n = wpick(rng, [(0, 1), (1, 4), (2, 4), (3, 2)])
  tree = [_wild_shape(rng) for _ in range(n)]
  T = rng.randrange(1, 5)
  return {'system': 'sm3', 'class': 'sm3', 'x64': rng.random() < 0.5,
          'mode': 'jit', 'config': cfg, 'tree': tree, 'lr': ds_gen.gen_lr(rng),
          'param_seed': rng.randrange(1000),
          'ops': [ds_gen.gen_step(rng, max(n, 1)) for _ in range(T)]}


def gen_tf(rng, tier):
  cfg = tf_gen.gen_config(rng, variants=True)
  if rng.random() < 0.15:
    cfg['graft']['grafting_type'] = 'adafactor'
    cfg['graft']['second_moment_decay'] = 0.9
    cfg['graft']['epsilon'] = 1e-30
  n = wpick(rng, [(0, 1), (1, 4), (2, 4), (3, 2)])
  tree = [_wild_shape(rng) for _ in range(n)]
  T = rng.randrange(1, 5)
  return {'system': 'tearfree', 'class': 'tearfree_' + cfg['second_order'],
          'x64': rng.random() < 0.5, 'float64_params': rng.random() < 0.5,
          'mode': 'jit', 'config': cfg, 'tree': tree, 'lr': ds_gen.gen_lr(rng),
          'param_seed': rng.randrange(1000),
          'ops': [ds_gen.gen_step(rng, max(n, 1)) for _ in range(T)]}


def generate(seed, idx, tier):
  rng = derive_rng(seed, 'C07', idx)
  s = wpick(rng, [('ds', 6), ('sm3', 1), ('tearfree', 3)])
  plan = {'ds': gen_ds, 'sm3': gen_sm3, 'tearfree': gen_tf}[s](rng, tier)
  if rng.random() < 0.2:
    plan['lr'] = {'kind': 'optax_linear', 'v': 0.1, 'T': 16}
  return plan


def classify(e):
  """-> ('explicit'|'internal', where, statement)"""
  import linecache
  import os
  import traceback
  from sim import jaxenv
  repo = os.path.realpath(jaxenv.REPO) + os.sep
  tb = traceback.extract_tb(e.__traceback__)
  last = tb[-1]
  in_repo = os.path.realpath(last.filename).startswith(repo)
  where = 'outside_repo'
  for fr in reversed(tb):
    if os.path.realpath(fr.filename).startswith(repo):
      where = f'{os.path.basename(fr.filename)}:{fr.name}'
      break
  line = (last.line or linecache.getline(last.filename, last.lineno)).strip()
  if in_repo:
    if line.startswith('raise ') or ' raise ' in line:
      return 'explicit', where, line
    if isinstance(e, AssertionError):
      # an assertion is an explanatory rejection only if its message says
      # something in words; `assert cond, some_value` that merely dumps a value
      # (e.g. "AssertionError: [0, 1, 2]") is an internal consistency check
      # going off
      if _assert_has_words(last.filename, last.lineno):
        return 'explicit', where, line
      return 'internal', where, line
    # multi-line raise statements: look a few lines up
    for k in range(1, 6):
      l2 = linecache.getline(last.filename, last.lineno - k).strip()
      if l2.startswith('raise ') and isinstance(e, (ValueError, NotImplementedError,
                                                    TypeError)):
        return 'explicit', where, l2
  return 'internal', where, line


_AST_CACHE = {}


def _assert_has_words(filename, lineno):
  """True iff the assert statement covering `lineno` carries a message with a
  string literal that contains a word."""
  import ast
  import re
  if filename not in _AST_CACHE:
    try:
      _AST_CACHE[filename] = ast.parse(open(filename).read())
    except (OSError, SyntaxError):
      _AST_CACHE[filename] = None
  tree = _AST_CACHE[filename]
  if tree is None:
    return False
  best = None
  for node in ast.walk(tree):
    if isinstance(node, ast.Assert) and node.lineno <= lineno <= (
        node.end_lineno or node.lineno):
      if best is None or node.lineno >= best.lineno:
        best = node
  if best is None or best.msg is None:
    return False
  for sub in ast.walk(best.msg):
    if isinstance(sub, ast.Constant) and isinstance(sub.value, str) and \
        re.search(r'[A-Za-z]{3,}', sub.value):
      return True
  return False


def _sig(tree):
  import jax
  import numpy as np
  flat, td = jax.tree_util.tree_flatten_with_path(tree)
  return td, tuple((jax.tree_util.keystr(p), tuple(np.shape(l)),
                    str(l.dtype) if hasattr(l, 'dtype') else str(np.asarray(l).dtype),
                    bool(getattr(getattr(l, 'aval', None), 'weak_type', False)))
                   for p, l in flat)


def run(plan):
  import numpy as np
  import jax
  import jax.numpy as jnp
  from sim.ctx import Ctx
  from sim.ds_world import named_leaves, sha_leaves, tree_of
  from sim.grads import make_grads, make_params
  from sim.worlds import make_world
  ctx = Ctx(plan, 'C07')
  sysm = plan['system']
  shapes = [tuple(s) for s in plan['tree']]
  if not shapes:
    ctx.probe('empty_tree')
  if any(len(s) == 0 for s in shapes):
    ctx.probe('rank0_leaf')
  if any(1 in s for s in shapes):
    ctx.probe('unit_dim_leaf')
  params = make_params(shapes, plan.get('param_seed', 0))
  if sysm == 'tearfree' and plan.get('x64') and plan.get('float64_params'):
    params = [np.asarray(p, np.float64) for p in params]
  pdt = params[0].dtype if params else np.float32
  fam = sysm if sysm != 'tearfree' else 'tearfree_' + plan['config'].get(
      'second_order', 'shampoo')
  mk = fam + ('_x64' if plan.get('x64') else '')
  stage = 'construct'
  outcome = 'success'
  try:
    world = make_world(plan)
    stage = 'init'
    state = world.init(params)
    sig0 = _sig(state)
    blobs = []
    for t, op in enumerate(plan['ops']):
      stage = 'update'
      grads, _ = make_grads(shapes, op)
      grads = [np.asarray(g, pdt) for g in grads]
      u, state2 = world.update(grads, state, params)
      ups = world.updates_np(u)
      rep = getattr(world, 'mode', 'jit') in ('vmap', 'pmap')
      # update tree == params in structure, shape, dtype
      for i, (x, p) in enumerate(zip(ups, params)):
        xs = x.shape[1:] if rep else x.shape
        ok = tuple(xs) == tuple(p.shape) and x.dtype == p.dtype
        ctx.ev('update_layout', 'ok' if ok else 'violation')
        if not ok:
          ctx.violate('update_layout', mk, 'update_shape_or_dtype_differs_from_param',
                      tick=t, leaf=i, update=[list(xs), str(x.dtype)],
                      param=[list(p.shape), str(p.dtype)])
      sig1 = _sig(state2)
      same = sig1[0] == sig0[0] and sig1[1] == sig0[1]
      ctx.ev('layout_fixed_point', 'ok' if same else 'violation')
      if not same:
        diffs = [(a, b) for a, b in zip(sig1[1], sig0[1]) if a != b][:3]
        ctx.violate('layout_fixed_point', mk,
                    'treedef_changed' if sig1[0] != sig0[0] else
                    'leaf_shape_or_dtype_changed', tick=t,
                    diffs=[[list(map(str, a)), list(map(str, b))] for a, b in diffs])
      state = state2
      blobs.append(world.to_bytes(state))
      ctx.ticks += 1
      ctx.saw_op('STEP')
      ctx.log.add(op='STEP', t=t, st=sha_leaves(named_leaves(state)))
    # the state as a checkpoint target
    if blobs:
      stage = 'restore'
      w2 = make_world(plan)
      tmpl = w2.init(params)
      st2 = w2.from_bytes(tmpl, blobs[-1])
      s_t, s_r = _sig(tmpl), _sig(st2)
      weak = [x[0] for x in s_t[1] if x[3]]
      if weak:
        ctx.violate('restore_layout', mk, 'weakly_typed_state_leaf_cannot_be_'
                    'restored_as_such', leaves=weak[:3])
      ok = s_t[0] == s_r[0] and [x[:3] for x in s_t[1]] == [x[:3] for x in s_r[1]]
      ctx.probe('restore_checked')
      ctx.ev('restore_layout', 'ok' if ok else 'violation')
      if not ok:
        ctx.violate('restore_layout', mk, 'restored_state_differs_from_template')
      ctx.saw_op('CRASH_RESTORE')
    # the state as a lax.scan carry
    if getattr(world, 'mode', 'jit') == 'jit' and shapes:
      stage = 'scan'
      g0, _ = make_grads(shapes, plan['ops'][0])
      g0 = tree_of([jnp.asarray(np.asarray(g, pdt)) for g in g0])
      ptree = tree_of([jnp.asarray(p) for p in params])
      st_init = world.init(params)

      def body(s, _):
        u_, s2_ = world.opt.update(g0, s, ptree)
        return s2_, None
      try:
        jax.lax.scan(body, st_init, None, length=2)
        ctx.ev('scan_carry')
      except TypeError as e:
        if 'carry' in str(e) or 'scan' in str(e):
          ctx.violate('layout_fixed_point', mk, 'state_is_not_a_scan_carry',
                      msg=str(e)[:400])
          ctx.ev('scan_carry', 'violation')
        else:
          raise
      ctx.probe('scan_carry_checked')
    # sharded: init / declared shapes+dtypes / partition specs agree
    if sysm == 'ds' and plan.get('mode') == 'sharded' and shapes:
      stage = 'sharded_decl'
      _sharded_decl(ctx, mk, world, params)
    ctx.probe('success')
  except Exception as e:  # pylint: disable=broad-except
    kind, where, line = classify(e)
    outcome = kind
    if kind == 'explicit':
      ctx.probe('explicit_rejection')
      ctx.ev('outcome', 'ok')
      ctx.log.add(rejected=type(e).__name__, where=where)
    else:
      ctx.ev('outcome', 'violation')
      ctx.violate('internal_error', mk, f'{type(e).__name__}@{where}@{stage}',
                  msg=str(e)[:300], line=line[:160])
  cfg = plan.get('config', {})
  flags = ''
  if sysm == 'ds':
    flags = ''.join(str(int(bool(cfg.get(k)))) for k in (
        'frequent_directions', 'average_grad', 'reset_preconditioner',
        'reuse_preconditioner', 'compression_rank',
        'best_effort_memory_usage_reduction', 'eigh')) + \
        str(cfg.get('precondtioner_type', 1)) + str(int(cfg.get('block_size', 4) == 1))
  ctx.state(plan.get('class', sysm), int(bool(plan.get('x64'))), outcome, flags,
            min(len(shapes), 2), int(any(len(s) == 0 for s in shapes)))
  ctx.max_clock = ctx.ticks
  return ctx.result()


def _sharded_decl(ctx, mk, world, params):
  import jax
  import jax.numpy as jnp
  import numpy as np
  from jax.sharding import PartitionSpec as P
  from sim.ds_world import tree_of
  ptree = tree_of([jnp.asarray(p) for p in params])
  with world.mesh:
    fns = world.opt.init(ptree)
    st = fns.init_fn(ptree)
    decl = fns.shape_and_dtype_fn(ptree)
    pspecs = fns.pspec_fn(ptree, tree_of([P() for _ in params]),
                          P('x', None, None))
  ctx.probe('sharded_decl_checked')
  actual = {jax.tree_util.keystr(p): (tuple(np.shape(l)), str(l.dtype))
            for p, l in jax.tree_util.tree_flatten_with_path(st)[0]}

  def is_sd(x):
    return (isinstance(x, list) and len(x) == 2 and
            isinstance(x[0], (list, tuple)) and
            all(isinstance(i, (int, np.integer)) for i in x[0]))
  dflat = jax.tree_util.tree_flatten_with_path(decl, is_leaf=is_sd)[0]
  declared = {}
  for p, l in dflat:
    if is_sd(l):
      declared[jax.tree_util.keystr(p)] = (tuple(int(i) for i in l[0]),
                                           str(np.dtype(l[1])))
  for k, v in actual.items():
    d = declared.get(k)
    ok = d == v
    ctx.ev('sharded_decl', 'ok' if ok else 'violation')
    if not ok:
      leafname = k.split('.')[-1].split('[')[0]
      ctx.violate('sharded_decl', mk, f'declared_differs_{leafname}', leaf=k,
                  actual=[list(v[0]), v[1]],
                  declared=None if d is None else [list(d[0]), d[1]])
  for k in declared:
    if k not in actual:
      ctx.violate('sharded_decl', mk, 'declared_leaf_missing_in_state', leaf=k)
  pflat = jax.tree_util.tree_flatten_with_path(
      pspecs, is_leaf=lambda x: isinstance(x, P))[0]
  pkeys = {jax.tree_util.keystr(p) for p, l in pflat if isinstance(l, P)}
  for k in actual:
    ok = k in pkeys
    ctx.ev('sharded_pspec', 'ok' if ok else 'violation')
    if not ok:
      leafname = k.split('.')[-1].split('[')[0]
      ctx.violate('sharded_decl', mk, f'no_partition_spec_for_{leafname}', leaf=k)


def simplifications(plan):
  from sim.harness import generic_simplifications
  return generic_simplifications(plan)
