"""C11 - quantized optimizer state: decided in situ on every quantized leaf of
every state a simulated optimizer visits, plus drift of carried state."""
from sim import ds_gen
from sim.props import common
from sim.refmodel import shapes as shp
from sim.util import derive_rng, pick, wpick

LEVEL = 'exploration'
BUDGET = {
    'quick': dict(runs=130, wall=420, timeout=600, det=4, minimise=40),
    'thorough': dict(runs=3000, wall=3000, timeout=600, det=16, minimise=200),
}
RULE = ('In situ only: SM3 (int8 momentum, beta1 in {0,.5,.9,1}) and Distributed '
        'Shampoo in quantized mode under simulated replicas (int8 momenta, int16 '
        'statistics and preconditioners with extracted diagonals), driven with '
        'scale jumps 1e+-6 and near-overflow / subnormal faults. Every '
        'quantized leaf of every visited state is checked: integer range, no '
        'most-negative value, column max |q| = number of buckets, zero '
        'payload diagonal, half-bucket error against the float exposed by the '
        'update, re-quantization with the repo\'s quantizer reproduces the '
        'integers, carried leaves stay byte-identical. Distinct non-trivial = '
        'distinct (system, dtype, leaf role, zero bucket present?, op kind).')
COMPONENTS = {
    'real': ['precondition.quantization_utils.QuantizedValue', 'precondition.sm3',
             'precondition.distributed_shampoo quantized paths', 'jax/XLA CPU'],
    'simulated': ['replicas (vmap), clock, checkpoint store, crash'],
    'stub': ['gradient source with faults'],
}
ASSUMPTIONS = ['restricted reach: only tensors the optimizers quantize during '
               'simulated runs (float32, rank 1-4); bfloat16 and direct calls '
               'are not decided']
EXPECTED_PROBES = ['quantized_bucket_zero', 'int8_leaf', 'int16_leaf',
                   'half_bucket_checked', 'carried_leaf_checked',
                   'scaled_requantize', 'sign_flipped_requantize']


def generate(seed, idx, tier):
  rng = derive_rng(seed, 'C11', idx)
  if rng.random() < 0.5:
    from sim.props import c12
    plan = c12.generate(seed, 700000 + idx, tier)
    plan['config']['beta1'] = pick(rng, [0.0, 0.5, 0.9, 1.0, 1.0])
    plan['config']['weight_decay'] = 0.0
    plan['class'] = 'sm3'
    for op in plan['ops']:
      if op['op'] == 'STEP' and rng.random() < 0.15:
        op['fault'] = {'kind': pick(rng, ['huge', 'tiny', 'subnormal', 'zero',
                                          'big']), 'leaf': -1}
    return plan
  x64 = rng.random() < 0.7
  cfg = ds_gen.gen_config(rng, emph={'thr': [(0.1, 1)]})
  cfg['start_preconditioning_step'] = pick(rng, [0, 0, 1, 2])
  cfg['nesterov'] = rng.random() < 0.3
  cfg['weight_decay'] = 0.0
  cfg = common.constrain(cfg, 'vmap', True, x64)
  tree = ds_gen.fix_tree_for_config(rng, ds_gen.gen_tree(rng), cfg)
  T = rng.randrange(6, 16) if tier == 'quick' else rng.randrange(8, 31)
  ops = common.gen_history(
      rng, cfg, len(tree), T, 0.1,
      fault_kinds=['huge', 'tiny', 'subnormal', 'zero', 'big'],
      scale_jumps=0.4)
  return {'system': 'ds', 'class': 'ds_quantized', 'x64': x64, 'mode': 'vmap',
          'D': pick(rng, [1, 2, 3]), 'mesh': 1, 'config': cfg, 'tree': tree,
          'lr': ds_gen.gen_lr(rng), 'param_seed': rng.randrange(1000),
          'ops': ops, 'oracles': ['quant', 'cadence']}


def _leaf_groups(leaves):
  """QuantizedValue groups: base path -> dict(q, b, d)."""
  out = {}
  for k in leaves:
    if k.endswith('.quantized'):
      base = k[:-len('.quantized')]
      q = leaves[k]
      if q.dtype.kind != 'i':
        continue
      out[base] = dict(q=q, b=leaves.get(base + '.bucket_size'),
                       d=leaves.get(base + '.diagonal'))
  return out


def check_quantized(ctx, mk, t, base, grp, rep=None):
  import numpy as np
  from precondition.quantization_utils import QuantizedValue
  import jax.numpy as jnp
  q, b, d = grp['q'], grp['b'], grp['d']
  if rep is not None:
    q, b = q[rep], b[rep]
    d = d[rep] if d is not None else None
  nb = 127 if q.dtype == np.int8 else 32767
  # the property is about finite tensors: a non-finite bucket size or diagonal
  # means the float that was quantized was not finite
  if not (np.all(np.isfinite(np.asarray(b, np.float64))) and
          (d is None or np.all(np.isfinite(np.asarray(d, np.float64))))):
    ctx.ev('q_range', 'vacuous')
    return None
  ctx.probe('int8_leaf' if nb == 127 else 'int16_leaf')
  qi = q.astype(np.int64)
  ok = bool(np.all(np.abs(qi) <= nb))
  ctx.ev('q_range', 'ok' if ok else 'violation')
  if not ok:
    ctx.violate('q_range', mk, 'most_negative_or_out_of_range_integer', tick=t,
                leaf=base, min=int(qi.min()), max=int(qi.max()))
  bb = np.asarray(b, np.float64)
  if not np.all(np.isfinite(bb)):
    ctx.ev('q_exact', 'vacuous')
    return None
  colmax = np.max(np.abs(qi), axis=0) if qi.ndim >= 1 and qi.shape[0] else qi
  zero_b = bb == 0
  if np.any(zero_b):
    ctx.probe('quantized_bucket_zero')
  okc = bool(np.all(np.where(zero_b, colmax == 0, colmax == nb)))
  ctx.ev('q_exact', 'ok' if okc else 'violation')
  if not okc:
    ctx.violate('q_exact', mk, 'column_max_not_num_buckets', tick=t, leaf=base)
  if d is not None and qi.ndim == 2:
    # the diagonal is stored in float; what is left of it in the payload may
    # only be rounding residue (XLA evaluates the producer of the matrix once
    # for diag() and once for the subtraction, with different fusion rounding)
    resid = np.abs(np.diag(qi) * bb)
    okd = bool(np.all(resid <= 8 * 2.0 ** -24 * np.abs(np.asarray(d, np.float64))
                      + 1e-45))
    if np.any(np.diag(qi) != 0):
      ctx.probe('payload_diagonal_residue')
    ctx.ev('q_exact', 'ok' if okd else 'violation')
    if not okd:
      ctx.violate('q_exact', mk, 'payload_diagonal_not_zero', tick=t, leaf=base)
  # re-quantizing the dequantized value reproduces the integers
  deq = qi.astype(np.float32) * np.asarray(b, np.float32)[np.newaxis, ...]
  if d is not None:
    deq = deq + np.diag(np.asarray(d, np.float32))
  if np.all(np.isfinite(deq)):
    qv = QuantizedValue.from_float_value(jnp.asarray(deq, jnp.float32),
                                         jnp.int8 if nb == 127 else jnp.int16,
                                         d is not None)
    q2 = np.asarray(qv.quantized).astype(np.int64)
    qc = qi
    if d is not None and qi.ndim == 2:
      q2 = q2 - np.diag(np.diag(q2))
      qc = qi - np.diag(np.diag(qi))
      # columns whose payload diagonal kept a rounding residue (see q_exact)
      # had their bucket size set by that residue; re-quantizing, where the
      # diagonal is extracted consistently, legitimately re-scales them
      resid_cols = np.diag(qi) != 0
      if np.any(resid_cols):
        q2 = q2[:, ~resid_cols]
        qc = qc[:, ~resid_cols]
    oki = bool(np.array_equal(q2, qc))
    ctx.ev('q_idempotent', 'ok' if oki else 'violation')
    if not oki:
      ctx.violate('q_idempotent', mk, 'requantized_integers_differ', tick=t,
                  leaf=base, n_diff=int(np.sum(q2 != qi)))
  else:
    ctx.ev('q_idempotent', 'vacuous')
  return deq


_QJIT = {}


def _worst(back, xr, tol, np):
  e = np.abs(np.asarray(back, np.float64) - xr) - tol
  ix = np.unravel_index(int(np.nanargmax(e)), e.shape) if e.size else ()
  try:
    return {'index': [int(i) for i in ix], 'got': float(back[ix]),
            'want': float(xr[ix]), 'tol': float(np.broadcast_to(tol, xr.shape)[ix])}
  except Exception:  # pylint: disable=broad-except
    return {}


def scaled_requantize(ctx, mk, t, base, deq, nb, diag):
  """Exponent sweep on a reached tensor: the dequantized leaf, scaled by powers
  of two towards the subnormal and the near-overflow end of float32, goes
  through the repo's quantizer (eager and jitted) and must round-trip within
  half a bucket without using the most-negative integer."""
  import numpy as np
  import jax
  import jax.numpy as jnp
  from precondition.quantization_utils import QuantizedValue
  done = ctx.__dict__.setdefault('_scaled_done', 0)
  if done >= 4 or deq is None or deq.size == 0:
    return
  amax = float(np.max(np.abs(deq)))
  if not np.isfinite(amax) or amax == 0.0:
    return
  ctx._scaled_done += 1
  dt = jnp.int8 if nb == 127 else jnp.int16
  top = np.floor(np.log2(3.0e38 / amax))
  # (log2 scale, sign): the sign cases feed the same reached tensor negated
  # (a statistics matrix becomes negative definite, its float diagonal negative)
  cases = [(top, 1), (top - 1, 1), (top - 13, 1), (0.0, 1), (-60.0, 1),
           (np.ceil(np.log2(1e-37 / amax)), 1), (0.0, -1), (top - 1, -1)]
  for k, sgn in cases:
    x = np.asarray(deq, np.float64) * (2.0 ** float(k)) * sgn
    x32 = np.asarray(x, np.float32)
    if not np.all(np.isfinite(x32)):
      continue
    for how in ('eager', 'jit'):
      if how == 'eager':
        qv = QuantizedValue.from_float_value(jnp.asarray(x32), dt, diag)
      else:
        fn = _QJIT.get((nb, diag))
        if fn is None:
          fn = jax.jit(lambda a: QuantizedValue.from_float_value(a, dt, diag))
          _QJIT[(nb, diag)] = fn
        qv = fn(jnp.asarray(x32))
      q = np.asarray(qv.quantized).astype(np.int64)
      back = np.asarray(qv.to_float(), np.float64)
      ctx.probe('scaled_requantize')
      ok = bool(np.all(np.abs(q) <= nb))
      ctx.ev('q_range', 'ok' if ok else 'violation')
      if not ok:
        ctx.violate('q_range', mk, 'most_negative_or_out_of_range_integer',
                    tick=t, leaf=base, log2_scale=float(k), how=how)
      xr = np.asarray(x32, np.float64)
      if sgn < 0:
        ctx.probe('sign_flipped_requantize')
      if diag:
        off = xr - np.diag(np.diag(xr))
        # the extracted diagonal comes back exactly (up to the rounding
        # residue the payload may keep, see check_quantized)
        dd = np.abs(np.diag(back) - np.diag(xr))
        # (subnormal diagonal entries are flushed by XLA CPU: that is the known
        # finding reported by the half-bucket oracle below, not a second one)
        normal = np.abs(np.diag(xr)) >= 2.0 ** -126
        okd = bool(np.all(np.isfinite(back)) and np.all(
            (dd <= 8 * 2.0 ** -24 * np.abs(np.diag(xr)) + 1e-45) | ~normal))
        ctx.ev('q_exact', 'ok' if okd else 'violation')
        if not okd:
          ctx.violate('q_exact', mk, 'diagonal_not_reproduced', tick=t,
                      leaf=base, log2_scale=float(k), sign=sgn, how=how,
                      worst=float(np.nanmax(dd)) if dd.size else 0.0)
      else:
        off = xr
      colmax = np.max(np.abs(off), axis=0) if off.ndim else np.abs(off)
      tol = colmax / nb * 0.5 * (1 + 1e-3) + 4 * 2.0 ** -24 * colmax + 1e-45
      if not np.all(np.isfinite(back)):
        okh = False
      else:
        okh = bool(np.all(np.abs(back - xr) <= tol))
      ctx.ev('q_halfbucket', 'ok' if okh else 'violation')
      if not okh:
        sub = bool(np.any((colmax > 0) & (colmax / nb < 2.0 ** -126)))
        bad = np.abs(back - xr) > tol if np.all(np.isfinite(back)) else None
        sub_in = bad is not None and bool(np.all(np.abs(xr[bad]) < 2.0 ** -126))
        ctx.violate('q_halfbucket', mk,
                    'bucket_size_subnormal' if sub else
                    'subnormal_input_flushed_to_zero' if sub_in else
                    'scaled_tensor_off_by_more_than_half_bucket', tick=t,
                    leaf=base, log2_scale=float(k), sign=sgn, how=how,
                    max_abs=float(np.max(np.abs(xr))),
                    worst=_worst(back, xr, tol, np))


def quant_ds(ctx, rec):
  import numpy as np
  from sim.refmodel import ds as ref
  w, view = rec['world'], rec['view']
  cfg, t = w.cfg, rec['t']
  mk = 'ds_quantized'
  groups = _leaf_groups(rec['new'])
  lr = ref.lr_value(w.lr_spec, t)
  S = cfg.get('start_preconditioning_step', 5)
  for base, grp in groups.items():
    deq = check_quantized(ctx, mk, t, base, grp, rep=view.rep)
    if deq is not None and t % 3 == 1:
      scaled_requantize(ctx, mk, t, base, deq,
                        127 if grp['q'].dtype == np.int8 else 32767,
                        grp['d'] is not None)
    role = base.split('.')[-1].split('[')[0]
    ctx.state(mk, str(grp['q'].dtype), role, int(np.any(np.asarray(grp['b']) == 0)),
              rec['opkind'])
  # half a bucket against the float the optimizer exposes: with nesterov off
  # and t >= S the update is -lr * momentum_float (decoupled lr)
  if not cfg.get('nesterov', True) and cfg.get('decoupled_learning_rate', True) \
      and lr != 0:
    for i, leaf in enumerate(view.layout['leaves']):
      if i in rec['poisoned'] or len(leaf['shape']) <= 1:
        continue
      name = 'momentum' if (t >= S) else 'diagonal_momentum'
      base = view.base(i) + '.' + name
      if base not in groups:
        continue
      grp = groups[base]
      q = grp['q'][view.rep] if view.rep is not None else grp['q']
      b = grp['b'][view.rep] if view.rep is not None else grp['b']
      m = -np.asarray(rec['updates'][i], np.float64) / lr
      deq = q.astype(np.float64) * np.asarray(b, np.float64)[np.newaxis, ...]
      colmax = np.max(np.abs(m), axis=0)
      tol = colmax / 127.0 * 0.5 * (1 + 1e-3) + 4 * 2.0 ** -24 * colmax
      ok = bool(np.all(np.abs(deq - m) <= tol[np.newaxis, ...] + 1e-38))
      ctx.probe('half_bucket_checked')
      ctx.ev('q_halfbucket', 'ok' if ok else 'violation')
      if not ok:
        sub = bool(np.any((colmax > 0) & (colmax / 127.0 < 2.0 ** -126)))
        ctx.violate('q_halfbucket', mk, 'bucket_size_subnormal' if sub else
                    'dequantized_off_by_more_than_half_bucket',
                    tick=t, leaf=base)


def run(plan):
  if plan['system'] == 'sm3':
    from sim.props import c12
    return c12.run(plan, prop='C11', extra_oracle=quant_sm3, own_oracles=False)
  from sim import ds_run
  ds_run.register('quant', quant_ds)
  return ds_run.run(plan, 'C11')


def quant_sm3(ctx, rec):
  import numpy as np
  mk = 'sm3'
  t = rec['t']
  groups = _leaf_groups(rec['new'])
  pg = _leaf_groups(rec['prev'])
  cfg = rec['cfg']
  for base, grp in groups.items():
    deq = check_quantized(ctx, mk, t, base, grp)
    if deq is not None and t % 3 == 1:
      scaled_requantize(ctx, mk, t, base, deq, 127, False)
    ctx.state(mk, 'int8', 'momentum', int(np.any(np.asarray(grp['b']) == 0)),
              int(rec['zero_tick']))
  for i, s in enumerate(rec['shapes']):
    base = f".stats['p{i}'].diagonal_momentum"
    grp = groups.get(base)
    if grp is None:
      continue
    # u = -lr * m_float (no weight decay): half a bucket per column
    lr = rec['lr']
    u = np.asarray(rec['updates'][i], np.float64)
    if lr != 0 and np.all(np.isfinite(u)):
      m = -u / lr
      deq = grp['q'].astype(np.float64) * np.asarray(grp['b'], np.float64)[np.newaxis, ...]
      colmax = np.max(np.abs(m), axis=0) if m.ndim else np.abs(m)
      tol = colmax / 127.0 * 0.5 * (1 + 1e-3) + 4 * 2.0 ** -24 * colmax
      ok = bool(np.all(np.abs(deq - m) <= tol + 1e-38))
      ctx.probe('half_bucket_checked')
      ctx.ev('q_halfbucket', 'ok' if ok else 'violation')
      if not ok:
        cm = np.atleast_1d(colmax)
        sub = bool(np.any((cm > 0) & (cm / 127.0 < 2.0 ** -126)))
        ctx.violate('q_halfbucket', mk, 'bucket_size_subnormal' if sub else
                    'dequantized_off_by_more_than_half_bucket',
                    tick=t, leaf=base)
    # carried but not updated: zero gradient with beta1 = 1 must not drift
    anchors = ctx.__dict__.setdefault('_carried', {})
    if cfg['beta1'] == 1.0 and rec['zero_tick'] and base in pg and \
        np.all(np.isfinite(np.asarray(pg[base]['b'], np.float64))):
      # the momentum is re-quantized from its own dequantized value: the
      # integers must reproduce; bucket sizes may move by an ulp but must not
      # walk away from where the carried stretch started
      ctx.probe('carried_leaf_checked')
      a, b = pg[base], grp
      anchor = anchors.setdefault(base, np.asarray(a['b'], np.float64))
      ints = a['q'].tobytes() == b['q'].tobytes()
      bb = np.asarray(b['b'], np.float64)
      ulp = np.abs(anchor) * 2.0 ** -23
      near = bool(np.all(np.abs(bb - anchor) <= 4 * ulp + 1e-45))
      ctx.ev('q_drift', 'ok' if (ints and near) else 'violation')
      if not ints:
        ctx.violate('q_drift', mk, 'carried_momentum_changed_integers', tick=t,
                    leaf=base)
      elif not near:
        ctx.violate('q_drift', mk, 'carried_momentum_bucket_sizes_drift',
                    tick=t, leaf=base)
    else:
      anchors.pop(base, None)


def simplifications(plan):
  from sim.harness import generic_simplifications
  return generic_simplifications(plan)
