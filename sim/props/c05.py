"""C05 - grafting: warm-up uses the graft step, afterwards only its norm."""
from sim import ds_gen, tf_gen
from sim.props import common
from sim.refmodel import shapes as shp
from sim.util import derive_rng, pick, wpick

LEVEL = 'exploration'
BUDGET = {
    'quick': dict(runs=170, wall=420, timeout=600, det=4, minimise=40),
    'thorough': dict(runs=2600, wall=3000, timeout=600, det=16, minimise=200),
}
RULE = ('Momentum and weight decay off. Each run = one (grafting type, start '
        'step, preconditioner representation: full / int16-quantized replicas '
        '/ low-rank compressed / frequent-directions sketch / sharded / '
        'Tearfree Shampoo / Tearfree Sketchy, tree incl. skipped and rank<=1 '
        'leaves) and a faulted history; per tick and leaf the update norm must '
        'equal the closed-form graft step norm and the direction must be the '
        'preconditioned gradient computed by the reference from the roots in '
        'the state; before the start step and for excluded leaves the update '
        'is the graft step itself. Distinct non-trivial = distinct '
        '(representation, graft type, warm/active, coupled lr?, op kind).')
COMPONENTS = common.DS_COMPONENTS
ASSUMPTIONS = [
    'closed-form graft steps (SGD, AdaGrad, RMSProp, normalised variants, '
    'sign; Tearfree SGD/RMSProp) are written from the docstrings; the graft '
    'accumulator is additionally tracked free-running from the gradient '
    'history', 'Adafactor grafting (optax) is not exercised']
EXPECTED_PROBES = []


def generate(seed, idx, tier):
  rng = derive_rng(seed, 'C05', idx)
  fam = wpick(rng, [('ds_full', 4), ('ds_q', 2), ('ds_lr', 2), ('ds_fd', 2),
                    ('ds_sharded', 2), ('tf_shampoo', 3), ('tf_sketchy', 2)])
  T = rng.randrange(6, 16) if tier == 'quick' else rng.randrange(8, 31)
  faulted = rng.random() < 0.3
  rate = 0.0 if not faulted else 1.0 / rng.randrange(5, 12)
  if fam.startswith('tf'):
    so = 'shampoo' if fam == 'tf_shampoo' else 'sketchy'
    cfg = tf_gen.gen_config(rng, so=so, emph={
        'mom': 0.0, 'wd': 0.0, 'graft': pick(rng, ['sgd', 'rmsprop', 'rmsprop'])})
    tree = tf_gen.gen_tree(rng, cfg)
    if rng.random() < 0.5:
      tree = tree + [[pick(rng, [3, 5, 9])]]   # a rank-1 leaf (maybe masked)
    sched = {'preconditioning_compute_steps':
             cfg['shampoo']['update_preconditioners_freq'],
             'statistics_compute_steps': cfg['shampoo']['update_statistics_freq'],
             'start_preconditioning_step':
             cfg['graft']['start_preconditioning_step']}
    kinds = ['zero', 'big', 'nan', 'pinf'] if so == 'shampoo' else ['zero', 'big']
    ops = common.gen_history(rng, sched, len(tree), T, rate, fault_kinds=kinds,
                             jumps=0.05)
    dead = rng.random() < 0.35
    if dead:
      # dead directions: row-sparse (embedding-like) gradients whose scale
      # drops by 1e4 on some ticks - a fresh direction then lies below the
      # relative eigenvalue cut-off of its block and the preconditioned
      # gradient of a non-zero gradient is exactly zero
      for op in ops:
        if op['op'] == 'STEP' and not op.get('fault'):
          op['kind'] = wpick(rng, [('rows', 5), ('sparse', 2), ('normal', 2)])
          op.pop('leaf_scales', None)
          if rng.random() < 0.45:
            op['scale'] = 1e-4 * float(op.get('scale', 1.0))
    return {'system': 'tearfree', 'class': fam + ('_dead' if dead else ''),
            'mode': 'jit',
            'x64': so == 'shampoo' and rng.random() < 0.6, 'config': cfg,
            'tree': tree, 'lr': ds_gen.gen_lr(rng),
            'param_seed': rng.randrange(1000), 'ops': ops, 'oracles': ['graft']}
  x64 = rng.random() < 0.8
  mode, D, mesh, quant = 'jit', 1, 1, False
  cfg = ds_gen.gen_config(rng, emph={'beta1': 0.0, 'wd': 0.0})
  cfg['start_preconditioning_step'] = pick(rng, [0, 1, 2, 3])
  kinds = None
  if fam == 'ds_q':
    mode, D, quant = 'vmap', pick(rng, [1, 2, 3]), True
  elif fam == 'ds_sharded':
    mode, D, mesh = 'sharded', pick(rng, [1, 2, 4]), pick(rng, [1, 2])
  elif fam == 'ds_lr':
    cfg['compression_rank'] = pick(rng, [1, 2, -1, -2])
    cfg['block_size'] = pick(rng, [8, 16])
  elif fam == 'ds_fd':
    x64 = False
    cfg['compression_rank'] = pick(rng, [1, 2])
    cfg['block_size'] = pick(rng, [8, 16])
    cfg['frequent_directions'] = True
    cfg['statistics_compute_steps'] = cfg['preconditioning_compute_steps']
    cfg['precondtioner_type'] = 1
    kinds = ['zero', 'big', 'tiny', 'subnormal']
  cfg = common.constrain(cfg, mode, quant, x64)
  cfg['reuse_preconditioner'] = fam == 'ds_fd'
  tree = ds_gen.fix_tree_for_config(rng, ds_gen.gen_tree(rng), cfg)
  if mode == 'sharded':
    n = shp.tree_layout(tree, cfg)['n_stats']
    if not common.sharded_mesh_ok(n, D, mesh):
      mesh = 1
  ops = common.gen_history(rng, cfg, len(tree), T, rate, fault_kinds=kinds,
                           jumps=0.05)
  return {'system': 'ds', 'class': fam, 'x64': x64, 'mode': mode, 'D': D,
          'mesh': mesh, 'config': cfg, 'tree': tree, 'lr': ds_gen.gen_lr(rng),
          'param_seed': rng.randrange(1000), 'ops': ops,
          'oracles': ['graft', 'roots']}


def run(plan):
  if plan['system'] == 'tearfree':
    from sim import tf_run
    return tf_run.run(plan, 'C05')
  from sim import ds_run
  return ds_run.run(plan, 'C05')


def simplifications(plan):
  from sim.harness import generic_simplifications
  return generic_simplifications(plan)
