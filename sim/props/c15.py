"""C15 - Tearfree equals its documented composition."""
import copy

from sim import ds_gen, tf_gen
from sim.props import common
from sim.util import derive_rng, pick, wpick

LEVEL = 'exploration'
BUDGET = {
    'quick': dict(runs=200, wall=420, timeout=600, det=4, minimise=40),
    'thorough': dict(runs=3000, wall=3000, timeout=600, det=16, minimise=200),
}
RULE = ('Three run classes. refine: one seeded Tearfree configuration (second '
        'order type, block size, merge limit, frequencies, decay, grafting '
        'type/start/skip rules, momentum ema/nesterov/decay, weight decay '
        'before/after, constant/scheduled lr) and a history with clock jumps, '
        'restores and faults; every tick is compared leaf by leaf with a '
        'float64 model (exact per-block inverse roots). lr_twin: the same plan '
        'with lr*2^k must give exactly 2^k times the update (bitwise). '
        'shape_twin: the same plan on pre-merged / pre-padded tensors must '
        'deliver the same values for real entries. Distinct non-trivial = '
        'distinct (class, second order, graft, nesterov, ema, warm/active).')
COMPONENTS = {
    'real': ['precondition.tearfree.{optimizer,second_order,shampoo,sketchy,'
             'grafting,momentum,reshaper,praxis_shim}', 'optax trace/scale/'
             'add_decayed_weights', 'jax/XLA CPU'],
    'simulated': ['clock: the three count leaves', 'checkpoint store, crash'],
    'stub': ['gradient source with fault injector', 'constant parameters'],
    'reference': ['sim/refmodel/tearfree.py (DESIGN appendix B)'],
}
ASSUMPTIONS = [
    'Shampoo runs under x64 with float64 parameters (float64 state), Sketchy in '
    'float32; the sketch itself is checked by C09, here the update is compared '
    'with the model applied to the stored sketch',
    'root comparisons are vacuous when an eigenvalue lies within 4x of the '
    '1e-6 relative cut-off']
EXPECTED_PROBES = ['clock_jump']


def generate(seed, idx, tier):
  rng = derive_rng(seed, 'C15', idx)
  cls = wpick(rng, [('refine', 6), ('lr_twin', 2), ('shape_twin', 2)])
  cfg = tf_gen.gen_config(rng)
  so = cfg['second_order']
  tree = tf_gen.gen_tree(rng, cfg)
  if rng.random() < 0.3:
    tree = tree + [[pick(rng, [3, 5, 9])]]
  T = rng.randrange(6, 16) if tier == 'quick' else rng.randrange(8, 31)
  sched = {'preconditioning_compute_steps':
           cfg['shampoo']['update_preconditioners_freq']
           if so == 'shampoo' else cfg['sketchy']['update_freq'],
           'statistics_compute_steps': cfg['shampoo']['update_statistics_freq'],
           'start_preconditioning_step':
           cfg['graft']['start_preconditioning_step']}
  faulted = cls == 'refine' and rng.random() < 0.2
  kinds = ['zero', 'big', 'nan', 'pinf'] if so == 'shampoo' else ['zero', 'big']
  ops = common.gen_history(
      rng, sched, len(tree), T, 0.0 if not faulted else 0.12,
      fault_kinds=kinds, restores=cls == 'refine', rejit=cls == 'refine',
      jumps=0.08 if cls == 'refine' else 0.0, scale_jumps=0.3)
  plan = {'system': 'tearfree', 'class': f'{cls}_{so}', 'kind': cls,
          'mode': 'jit', 'x64': so == 'shampoo' and rng.random() < 0.8,
          'config': cfg, 'tree': tree, 'lr': ds_gen.gen_lr(rng),
          'param_seed': rng.randrange(1000), 'ops': ops,
          'params_follow': cls == 'refine' and rng.random() < 0.4,
          'oracles': ['refine']}
  if cls == 'lr_twin':
    plan['lr_factor'] = pick(rng, [2.0, 4.0, 0.5, 0.125, 1024.0])
  return plan


def run(plan):
  from sim import tf_run
  kind = plan.get('kind', 'refine')
  if kind == 'refine':
    return tf_run.run(plan, 'C15')
  return _twin(plan, kind)


def _twin(plan, kind):
  import numpy as np
  from sim.ctx import Ctx
  from sim.ds_world import named_leaves, sha_leaves
  from sim.grads import make_grads, make_params
  from sim.refmodel import tearfree as ref
  from sim.tf_world import TFWorld, full_config
  ctx = Ctx(plan, 'C15')
  so = full_config(plan['config'])['second_order']
  mk = 'tearfree_' + so
  shapes = [tuple(s) for s in plan['tree']]
  fdt = np.float64 if plan.get('x64') else np.float32
  params = [np.asarray(p, fdt) for p in make_params(shapes, plan['param_seed'])]
  A = TFWorld(plan)
  pb = copy.deepcopy(plan)
  lays = [ref.layout(s, A.cfg) for s in shapes]
  if kind == 'lr_twin':
    c = float(plan['lr_factor'])
    pb['lr'] = dict(plan['lr'], v=plan['lr']['v'] * c)
    shapes_b = shapes
  else:
    # every second-order leaf is handed over already merged and padded
    shapes_b = []
    for s, lay in zip(shapes, lays):
      shapes_b.append(tuple(lay['padded']) if not lay['masked'] and
                      len(lay['padded']) >= 2 else s)
    pb['tree'] = [list(s) for s in shapes_b]
    c = 1.0
  B = TFWorld(pb)
  lays_b = [ref.layout(s, B.cfg) for s in shapes_b]

  def to_b(x, lay, sb):
    if tuple(sb) == tuple(np.shape(x)):
      return x
    return np.asarray(ref.merge_pad(x, lay), fdt)

  def from_b(y, lay, s):
    if tuple(np.shape(y)) == tuple(s):
      return y
    return ref.unpad_unmerge(np.asarray(y, np.float64), lay)

  params_b = [to_b(p, l, sb) for p, l, sb in zip(params, lays, shapes_b)]
  sa, sb_ = A.init(params), B.init(params_b)
  for idx, op in enumerate(plan['ops']):
    ctx.op_index = idx
    if op['op'] != 'STEP':
      continue
    ctx.saw_op('STEP')
    grads, pz = make_grads(shapes, op)
    grads = [np.asarray(g, fdt) for g in grads]
    grads_b = [to_b(g, l, s2) for g, l, s2 in zip(grads, lays, shapes_b)]
    ua, sa = A.update(grads, sa, params)
    ub, sb_ = B.update(grads_b, sb_, params_b)
    ua, ub = A.updates_np(ua), B.updates_np(ub)
    t = ctx.ticks
    for i, (x, y) in enumerate(zip(ua, ub)):
      if kind == 'lr_twin':
        want = x * fdt(c)
        # linear in lr; the two worlds are separately compiled programs whose
        # last multiplication may be fused differently: allow 4 ulp
        ulp = np.finfo(fdt).eps
        with np.errstate(invalid='ignore'):
          sc_ = float(np.nanmax(np.abs(want))) if want.size else 0.0
          # (elementwise 4 ulp, or 8 ulp of the tensor's magnitude where the
          # momentum terms cancel)
          ok = bool(np.all((np.abs(want - y) <= 4 * ulp * np.abs(want) +
                            8 * ulp * sc_) |
                           (np.isnan(want) & np.isnan(y)) | (want == y)))
        tiny = np.any((np.abs(want) < 1e-30) & (want != 0)) if want.size else False
        if not ok and tiny:
          ctx.ev('lr_linear', 'vacuous')
          continue
        ctx.ev('lr_linear', 'ok' if ok else 'violation')
        if not ok:
          ctx.violate('lr_linear', mk, 'update_not_scaled_by_lr_factor',
                      tick=t, leaf=i, factor=c,
                      maxdiff=float(np.nanmax(np.abs(want - y))))
      else:
        if lays[i]['masked'] != lays_b[i]['masked']:
          ctx.ev('shape_twin', 'vacuous')
          continue
        yy = from_b(y, lays[i], shapes[i])
        if not (np.all(np.isfinite(x)) and np.all(np.isfinite(yy))):
          ctx.ev('shape_twin', 'vacuous')
          continue
        sc = float(np.max(np.abs(x))) if x.size else 0.0
        u = 2.0 ** -53 if plan.get('x64') and so == 'shampoo' else 2.0 ** -24
        tol = 4096 * u * (sc + 1e-300)
        d = float(np.max(np.abs(np.asarray(x, np.float64) - yy))) if x.size else 0.0
        ok = d <= tol
        changed = tuple(shapes_b[i]) != tuple(shapes[i])
        if changed:
          ctx.probe('twin_leaf_reshaped')
        ctx.ev('shape_twin', 'ok' if ok else 'violation', d / tol)
        if not ok:
          ctx.violate('shape_twin', mk, 'premerged_or_prepadded_leaf_differs',
                      tick=t, leaf=i, diff=d, scale=sc,
                      shape=list(shapes[i]), twin_shape=list(shapes_b[i]))
        # padded entries of the twin's own update must stay zero-effect:
        # nothing to check on A; on B the padding region is free
    ctx.ticks += 1
    ctx.log.add(op='STEP', t=t, a=sha_leaves({str(i): x for i, x in enumerate(ua)}),
                b=sha_leaves({str(i): x for i, x in enumerate(ub)}))
    ctx.state(kind, so, A.cfg['graft']['grafting_type'],
              int(A.cfg['momentum']['nesterov']), int(A.cfg['momentum']['ema']),
              int(t >= A.cfg['graft']['start_preconditioning_step']))
  ctx.max_clock = ctx.ticks
  return ctx.result()


def simplifications(plan):
  from sim.harness import generic_simplifications
  for c in generic_simplifications(plan):
    yield c
  # tearfree config is nested: reset sub-dicts field by field
  cfg = plan.get('config', {})
  for sec in ('shampoo', 'sketchy', 'graft', 'momentum'):
    for k in sorted(cfg.get(sec, {})):
      c = copy.deepcopy(plan)
      c['config'][sec].pop(k)
      yield c
