"""C14 - training resumes bit-identically from serialized state at any step.

fault_enumeration: for every sampled (optimizer, config, tree, history) EVERY
crash point k in 0..T is executed: serialize at k, crash (drop optimizer
object, jit cache, live state), build a fresh optimizer, restore into its init
template, continue to T, compare every update and state leaf bitwise with the
uninterrupted twin. A subset of crash points is resumed in a fresh interpreter.
"""
import json
import os
import subprocess
import sys

from sim import ds_gen, tf_gen
from sim.props import common
from sim.refmodel import shapes as shp
from sim.util import derive_rng, pick, wpick

LEVEL = 'fault_enumeration'
OPS_KEY = 'ops'
BUDGET = {
    'quick': dict(runs=64, wall=600, timeout=800, det=3, minimise=30),
    'thorough': dict(runs=700, wall=3300, timeout=900, det=8, minimise=120),
}
RULE = ('Each evaluation = one (optimizer family+mode, config, tree, gradient '
        'history of T ticks) with EVERY crash point k in 0..T executed '
        '(serialize, crash, fresh optimizer object and fresh compile, restore '
        'into the init template, continue to T); crash points resumed in a '
        'fresh interpreter are counted separately. Distinct non-trivial = '
        'distinct (family/mode, crash point k, k mod p, k mod s, warm/active, '
        'fresh-process?) tuples whose resumed suffix had at least one tick.')
COMPONENTS = dict(common.DS_COMPONENTS)
ASSUMPTIONS = [
    'a checkpoint is flax.serialization.to_bytes(state) restored with '
    'from_bytes into init(params) of a freshly constructed optimizer',
    'parameters and the gradient stream are checkpointed by the (stub) trainer']
EXPECTED_PROBES = ['crash_points', 'fresh_interpreter_resumes', 'rejit',
                   'resume_on_refresh_tick', 'resume_in_warmup']


def _ds_plan(rng, family, tier):
  x64 = rng.random() < 0.6
  mode, D, mesh, quant = 'jit', 1, 1, False
  cfg = ds_gen.gen_config(rng)
  if family == 'ds_q':
    mode, D, quant = 'vmap', pick(rng, [2, 3]), True
  elif family == 'ds_sharded':
    mode, D, mesh = 'sharded', pick(rng, [1, 2, 4]), pick(rng, [1, 2])
  elif family == 'ds_lr':
    cfg['compression_rank'] = pick(rng, [1, 2, -1, -2])
    cfg['block_size'] = pick(rng, [8, 16])
  elif family == 'ds_fd':
    x64 = False
    cfg['compression_rank'] = pick(rng, [1, 2])
    cfg['block_size'] = pick(rng, [8, 16])
    cfg['frequent_directions'] = True
    cfg['reuse_preconditioner'] = True
    cfg['statistics_compute_steps'] = cfg['preconditioning_compute_steps']
    cfg['average_grad'] = rng.random() < 0.4
    cfg['precondtioner_type'] = 1
    if rng.random() < 0.3:
      cfg['reset_preconditioner'] = True
      cfg['beta2'] = pick(rng, [0.5, 0.75, 0.9])
  elif family in ('ds_eager', 'ds_eager_fd'):
    mode = 'eager'
    if family == 'ds_eager_fd':
      # op-by-op frequent directions (the only path that looks at the *type*
      # of restored leaves is the eager one)
      x64 = False
      cfg['compression_rank'] = pick(rng, [1, 2])
      cfg['block_size'] = 8
      cfg['frequent_directions'] = True
      cfg['reuse_preconditioner'] = True
      cfg['preconditioning_compute_steps'] = pick(rng, [1, 2, 2, 3])
      cfg['statistics_compute_steps'] = cfg['preconditioning_compute_steps']
      cfg['start_preconditioning_step'] = pick(rng, [0, 1, 2])
      cfg['average_grad'] = rng.random() < 0.7
      cfg['precondtioner_type'] = 1
  cfg = common.constrain(cfg, mode, quant, x64)
  if family in ('ds_lr', 'ds_fd'):
    cfg['reuse_preconditioner'] = family == 'ds_fd'
  if family == 'ds_eager_fd':
    cfg['reuse_preconditioner'] = True
  tree = ds_gen.fix_tree_for_config(rng, ds_gen.gen_tree(
      rng, max_elems=200 if not family.startswith('ds_eager') else 40), cfg)
  if mode == 'sharded':
    n = shp.tree_layout(tree, cfg)['n_stats']
    if not common.sharded_mesh_ok(n, D, mesh):
      mesh = 1
  return {'system': 'ds', 'x64': x64, 'mode': mode, 'D': D, 'mesh': mesh,
          'config': cfg, 'tree': tree, 'lr': ds_gen.gen_lr(rng)}


def generate(seed, idx, tier):
  rng = derive_rng(seed, 'C14', idx)
  family = wpick(rng, [('ds_full', 4), ('ds_q', 2), ('ds_lr', 2), ('ds_fd', 2),
                       ('ds_sharded', 2), ('sm3', 2), ('tf_shampoo', 3),
                       ('tf_sketchy', 3), ('sm3_eager', 1), ('tf_eager', 1),
                       ('ds_eager', 1), ('ds_eager_fd', 2)])
  if family.startswith('ds'):
    plan = _ds_plan(rng, family, tier)
    n_leaves = len(plan['tree'])
    sched = plan['config']
  elif family.startswith('sm3'):
    cfg = {'beta1': pick(rng, [0.0, 0.5, 0.9, 1.0]),
           'beta2': pick(rng, [1.0, 0.999, 0.9]),
           'weight_decay': pick(rng, [0.0, 0.01]),
           'normalize_grads': rng.random() < 0.3}
    tree = ds_gen.gen_tree(rng, allow_rank0=False)
    plan = {'system': 'sm3', 'x64': rng.random() < 0.35, 'config': cfg,
            'tree': tree,
            'mode': 'eager' if family.endswith('eager') else 'jit',
            'lr': ds_gen.gen_lr(rng)}
    n_leaves, sched = len(tree), {}
  else:
    so = 'sketchy' if family == 'tf_sketchy' else (
        'shampoo' if family == 'tf_shampoo' else pick(rng, ['shampoo', 'sketchy']))
    cfg = tf_gen.gen_config(rng, so=so, variants=True)
    tree = tf_gen.gen_tree(rng, cfg)
    plan = {'system': 'tearfree', 'config': cfg, 'tree': tree,
            'x64': so == 'shampoo' and rng.random() < 0.5,
            'mode': 'eager' if family.endswith('eager') else 'jit',
            'lr': ds_gen.gen_lr(rng)}
    n_leaves = len(tree)
    sched = {'preconditioning_compute_steps':
             cfg['shampoo']['update_preconditioners_freq'],
             'statistics_compute_steps': cfg['shampoo']['update_statistics_freq'],
             'start_preconditioning_step':
             cfg['graft']['start_preconditioning_step']}
  T = rng.randrange(4, 9) if tier == 'quick' else rng.randrange(6, 13)
  if plan.get('mode') == 'eager':
    T = min(T, 5 if not family.startswith('ds') or
            plan['config'].get('frequent_directions') else 3)
  rate = 0.0 if rng.random() < 0.6 else 0.15
  # non-finite input makes the unguarded LAPACK svd/qr of the DS
  # frequent-directions path hang (out-of-scope observation, DESIGN 6)
  kinds = ['zero', 'big', 'tiny', 'subnormal'] if (
      family.startswith('ds') and plan['config'].get('frequent_directions')
  ) else None
  ops = common.gen_history(rng, sched, n_leaves, T, rate, fault_kinds=kinds,
                           restores=False, rejit=False)
  if rng.random() < 0.3:
    plan['lr'] = {'kind': 'optax_linear', 'v': pick(rng, [0.5, 0.1]),
                  'T': pick(rng, [8, 16])}
  plan.update({'class': family, 'param_seed': rng.randrange(1000), 'ops': ops,
               'params_follow': rng.random() < 0.5,
               'numpy_restore': plan.get('mode') == 'eager' and rng.random() < (
                   0.7 if family == 'ds_eager_fd' else 0.5),
               'fresh_interpreter': ([rng.randrange(0, T + 1)]
                                     if rng.random() < 0.25 else []),
               'rejit_at': ([rng.randrange(0, T)] if rng.random() < 0.3 else [])})
  return plan


# Relative deviation tolerated between an uninterrupted run and an op-by-op run
# resumed from numpy leaves, on the *linear accumulators* of the state only
# (Gram statistics, graft accumulators, averaged gradients): their rounding
# differences stay at a few ulp per tick, whereas anything downstream of an
# inverse root amplifies them by the conditioning of the statistics (DESIGN 8).
NUMPY_TOL = 1e-4


def _linear_leaves(plan, leaves):
  import numpy as np
  out = {}
  if plan['system'] == 'ds':
    from sim.ds_world import category
    fd = bool(plan['config'].get('frequent_directions'))
    for k, v in leaves.items():
      c = category(k)
      if c in ('diag', 'avg_grad') or (c == 'stat' and not fd):
        out[k] = np.array(v)
  elif plan['system'] == 'tearfree':
    from sim.tf_run import category
    for k, v in leaves.items():
      if category(k) in ('stat', 'acc'):
        out[k] = np.array(v)
  return out


def _hash_tick(world, ups, leaves):
  from sim.ds_world import sha_leaves
  return (sha_leaves({str(i): x for i, x in enumerate(ups)}),
          sha_leaves(leaves))


def _params(plan):
  import numpy as np
  from sim.grads import make_params
  ps = make_params([tuple(s) for s in plan['tree']], plan.get('param_seed', 0))
  if plan['system'] == 'tearfree' and plan.get('x64'):
    ps = [np.asarray(p, np.float64) for p in ps]
  return ps


def _grads(plan, op):
  import numpy as np
  from sim.grads import make_grads
  g, pz = make_grads([tuple(s) for s in plan['tree']], op)
  if plan['system'] == 'tearfree' and plan.get('x64'):
    g = [np.asarray(x, np.float64) for x in g]
  return g, pz


def run_suffix(plan, k, data, params):
  """Fresh optimizer, restore bytes taken after k ticks, run ticks k..T-1.
  Returns (layout_ok, [hash per tick])."""
  import numpy as np
  from sim.ds_world import named_leaves, signature
  from sim.worlds import make_world
  world = make_world(plan)
  template = world.init(params)
  if plan.get('numpy_restore'):
    # leaves exactly as flax hands them back (read-only numpy arrays): only
    # completion is checked, numpy dispatch differs from XLA by an ulp
    from flax import serialization
    state = serialization.from_bytes(template, data)
  else:
    state = world.from_bytes(template, data)
  layout_ok = signature(state) == signature(template)
  out = []
  ops = [o for o in plan['ops'] if o['op'] == 'STEP']
  params = [np.array(p) for p in params]
  for t in range(k, len(ops)):
    g, _ = _grads(plan, ops[t])
    u, state = world.update(g, state, params)
    ups = world.updates_np(u)
    out.append(_hash_tick(world, ups, named_leaves(state)))
    if plan.get('numpy_restore'):
      out[-1] = out[-1] + (_linear_leaves(plan, named_leaves(state)),)
    if plan.get('params_follow'):
      params = [np.asarray(p + (x[0] if x.ndim > p.ndim else x), p.dtype)
                for p, x in zip(params, ups)]
  return layout_ok, out


def run(plan):
  import numpy as np
  from sim.ctx import Ctx
  from sim.ds_world import named_leaves, sha_leaves
  from sim.worlds import make_world
  ctx = Ctx(plan, 'C14')
  fam = plan.get('class', plan['system'])
  ops = [o for o in plan['ops'] if o['op'] == 'STEP']
  T = len(ops)
  params = _params(plan)
  world = make_world(plan)
  state = world.init(params)
  blobs = [world.to_bytes(state)]
  pars = [[np.array(p) for p in params]]
  base, base_ups = [], []
  ctx.log.add(op='INIT', st=sha_leaves(named_leaves(state)))
  for t, op in enumerate(ops):
    if t in plan.get('rejit_at', []):
      world.incarnate()
      ctx.probe('rejit')
      ctx.saw_op('REJIT')
    g, _ = _grads(plan, op)
    if op.get('fault'):
      ctx.faults[op['fault']['kind']] += 1
    u, state = world.update(g, state, params)
    ups = world.updates_np(u)
    h = _hash_tick(world, ups, named_leaves(state))
    base.append(h)
    base_ups.append(_linear_leaves(plan, named_leaves(state))
                    if plan.get('numpy_restore') else None)
    ctx.saw_op('STEP')
    ctx.ticks += 1
    ctx.log.add(op='STEP', t=t, upd=h[0], st=h[1])
    if plan.get('params_follow'):
      params = [np.asarray(p + (x[0] if x.ndim > p.ndim else x), p.dtype)
                for p, x in zip(params, ups)]
    blobs.append(world.to_bytes(state))
    pars.append([np.array(p) for p in params])
  ctx.max_clock = T
  del world, state
  cfg = plan.get('config', {})
  p_int = cfg.get('preconditioning_compute_steps', 1) if plan['system'] == 'ds' else 1
  s_int = cfg.get('statistics_compute_steps', 1) if plan['system'] == 'ds' else 1
  S = cfg.get('start_preconditioning_step', 5) if plan['system'] == 'ds' else 0
  pts = plan.get('crash_points')
  if pts is None:
    pts = list(range(T + 1))
  for k in pts:
    ctx.saw_op('CRASH_RESTORE')
    ctx.probe('crash_points')
    layout_ok, got = run_suffix(plan, k, blobs[k], pars[k])
    if plan.get('numpy_restore'):
      # leaves exactly as flax hands them back (read-only numpy arrays) and an
      # op-by-op update: numpy dispatch rounds differently from XLA (an ulp per
      # operation), so the resumed run is compared numerically, not bitwise
      ctx.probe('numpy_leaf_resumes')
      ctx.ev('resume_completes')
      for j, h in enumerate(got):
        worst, where_ = 0.0, None
        for name, a in base_ups[k + j].items():
          b = h[2].get(name)
          a64 = np.asarray(a, np.float64)
          b64 = None if b is None else np.asarray(b, np.float64)
          if b64 is None or a64.shape != b64.shape or not np.array_equal(
              np.isfinite(a64), np.isfinite(b64)):
            worst, where_ = float('inf'), name
            continue
          fin = np.isfinite(a64)
          if not np.any(fin):
            continue
          sc = max(float(np.max(np.abs(a64[fin]))), 1e-300)
          d = float(np.max(np.abs(a64[fin] - b64[fin]))) / sc
          if d > worst:
            worst, where_ = d, name
        ok = worst <= NUMPY_TOL
        ctx.ev('resume_numpy_close', 'ok' if ok else 'violation',
               worst / NUMPY_TOL)
        if not ok:
          ctx.violate('resume_numpy_close', fam,
                      'numpy_leaf_resume_diverges', k=k, tick=k + j,
                      rel_diff=worst, leaf=where_)
          break
      continue
    _compare(ctx, fam, k, base, got, layout_ok, 'inproc')
    if k < T:
      ctx.state(fam, k, k % max(p_int, 1), k % max(s_int, 1), int(k >= S), 0)
      if k % max(p_int, 1) == 0:
        ctx.probe('resume_on_refresh_tick')
      if k < S:
        ctx.probe('resume_in_warmup')
  for k in plan.get('fresh_interpreter', []):
    if k > T:
      continue
    ctx.probe('fresh_interpreter_resumes')
    ctx.saw_op('CRASH_RESTORE_FRESH_PROCESS')
    # (bitwise comparison: leaves placed on device, see numpy_restore above)
    res = _child(dict(plan, numpy_restore=False), k, blobs[k], pars[k])
    if res is None:
      raise RuntimeError('fresh-interpreter resume failed to run')
    if res.get('error'):
      ctx.violate('resume_bitwise', fam, 'fresh_interpreter_crashed', k=k,
                  error=res['error'][-300:])
      continue
    got = [tuple(x) for x in res['hashes']]
    _compare(ctx, fam, k, base, got, res['layout_ok'], 'fresh_process')
    if k < T:
      ctx.state(fam, k, k % max(p_int, 1), k % max(s_int, 1), int(k >= S), 1)
  return ctx.result()


def _compare(ctx, fam, k, base, got, layout_ok, where):
  if not layout_ok:
    ctx.violate('restore_layout', fam, 'signature_differs_from_template', k=k,
                where=where)
    ctx.ev('restore_layout', 'violation')
  else:
    ctx.ev('restore_layout')
  for j, h in enumerate(got):
    t = k + j
    ok = (h[0] == base[t][0] and h[1] == base[t][1])
    ctx.ev('resume_bitwise', 'ok' if ok else 'violation')
    ctx.log.add(op='RESUMED', k=k, t=t, ok=ok, where=where)
    if not ok:
      what = 'update' if h[0] != base[t][0] else 'state'
      diff = sorted(x for x in h[1] if h[1][x] != base[t][1].get(x))[:4]
      ctx.violate('resume_bitwise', fam,
                  ('first_tick_after_restore' if j == 0 else 'later_tick') +
                  ('_fresh_process' if where == 'fresh_process' else ''),
                  k=k, tick=t, what=what, leaves=diff)
      break


def _child(plan, k, blob, params):
  """Resume in a brand-new interpreter: plan, bytes and params on stdin."""
  import numpy as np
  here = os.path.dirname(os.path.dirname(os.path.dirname(
      os.path.abspath(__file__))))
  msg = json.dumps({'plan': plan, 'k': k, 'blob': blob.hex(),
                    'params': [np.ascontiguousarray(p).tobytes().hex()
                               for p in params]})
  env = dict(os.environ)
  env['PYTHONHASHSEED'] = '12345'
  env.pop('XLA_FLAGS', None)
  r = subprocess.run([sys.executable, os.path.join(here, 'sim', 'props',
                                                   'c14_child.py')],
                     input=msg.encode(), capture_output=True, env=env,
                     timeout=400, cwd=here)
  for line in reversed(r.stdout.decode().splitlines()):
    if line.startswith('RESULT '):
      return json.loads(line[7:])
  sys.stderr.write(r.stderr.decode()[-2000:])
  return None


def simplifications(plan):
  import copy
  from sim.harness import generic_simplifications
  for c in generic_simplifications(plan):
    yield c
  for f in ('fresh_interpreter', 'rejit_at'):
    if plan.get(f):
      c = copy.deepcopy(plan)
      c[f] = []
      yield c
  if plan.get('params_follow'):
    c = copy.deepcopy(plan)
    c['params_follow'] = False
    yield c
