"""C16 - OCO algorithms match closed forms; lossless S-AdaGrad is full-matrix
AdaGrad. Also serves the OCO part of C09."""
from sim.util import derive_rng, pick, wpick

LEVEL = 'exploration'
BUDGET = {
    'quick': dict(runs=240, wall=420, timeout=600, det=4, minimise=40),
    'thorough': dict(runs=4000, wall=3000, timeout=600, det=16, minimise=200),
}
RULE = ('Each run = one algorithm in {OGD, ADA, S_ADA, ADA_FD, FD_SON, RFD_SON} '
        'with dimension 2..8 (vector or matrix-shaped w), sketch size 2..n, '
        'delta in {0,1e-6,0.1,1}, lr, and a gradient sequence (dense / rank < '
        'sketch size / zero rows / duplicated rows / scale jumps) driven '
        'stepwise through the init/update pair AND through the compiled '
        'scan/fori_loop runner with observation indices as a twin. Distinct '
        'non-trivial = distinct (algorithm, sequence kind, lossless regime?, '
        'delta>0?, sketch size, t mod 4).')
COMPONENTS = {
    'real': ['precondition.oco.algorithms (init/update pairs)',
             'precondition.oco.train._compiled_run_dataset', 'jax/XLA CPU x64'],
    'simulated': ['the dataset: rows of x are the gradient sequence (linear '
                  'loss), observation indices seeded'],
    'stub': ['datasets.load_dataset is not used (no network, no files)'],
    'reference': ['closed forms for OGD / diagonal AdaGrad; exact full-matrix '
                  'AdaGrad; exact covariance for the FD bracket'],
}
ASSUMPTIONS = ['x64 enabled (the package hard-codes float64 state)']
EXPECTED_PROBES = ['lossless_regime', 'compiled_twin_checked', 'zero_row']

ALGS = ['OGD', 'ADA', 'S_ADA', 'ADA_FD', 'FD_SON', 'RFD_SON']


def gen_plan(rng, tier, sketched_only=False, prop='C16'):
  alg = pick(rng, ALGS[2:] if sketched_only else ALGS)
  shape = pick(rng, [[2], [3], [4], [5], [6], [8], [2, 2], [2, 3], [3, 2], [2, 4]])
  n = 1
  for d in shape:
    n *= d
  sk = 0 if alg in ('OGD', 'ADA') else rng.randrange(2, n + 1)
  T = rng.randrange(3, 14) if tier == 'quick' else rng.randrange(3, 31)
  kind = wpick(rng, [('dense', 4), ('lowrank', 4), ('zero_rows', 2),
                     ('dup_rows', 2), ('scale_jump', 2), ('tiny', 2)] + (
                         # one feature many orders of magnitude below the others
                         [('feature_scale', 3)] if alg in ('OGD', 'ADA') else []))
  obs = sorted(set([0] + [rng.randrange(0, T + 1) for _ in range(3)] + [T]))
  return {'system': 'oco', 'class': alg, 'x64': True, 'alg': alg,
          'shape': shape, 'sketch_size': sk,
          'delta': pick(rng, [0.0, 1e-6, 0.1, 1.0, 1e-24]),
          'lr': pick(rng, [1.0, 0.1, 0.01]), 'seq_kind': kind,
          'seq_rank': max(1, min(n, (sk - 1) if sk else n) - rng.randrange(0, 2)),
          'gseed': rng.randrange(1 << 30), 'ops': [{'op': 'STEP'}] * T,
          'obs': obs, 'prop': prop}


def generate(seed, idx, tier):
  rng = derive_rng(seed, 'C16', idx)
  return gen_plan(rng, tier)


def _sequence(plan):
  import numpy as np
  rng = np.random.Generator(np.random.PCG64(int(plan['gseed'])))
  n = int(np.prod(plan['shape']))
  T = len(plan['ops'])
  kind = plan['seq_kind']
  if kind == 'lowrank':
    r = int(plan['seq_rank'])
    basis = rng.standard_normal((r, n))
    G = rng.standard_normal((T, r)) @ basis
  else:
    G = rng.standard_normal((T, n))
  if kind == 'zero_rows':
    G[rng.random(T) < 0.3] = 0.0
  if kind == 'dup_rows' and T > 1:
    for t in range(1, T):
      if rng.random() < 0.4:
        G[t] = G[t - 1]
  if kind == 'scale_jump':
    G *= (10.0 ** rng.integers(-3, 4, size=(T, 1)))
  if kind == 'tiny':
    G *= 10.0 ** -int(rng.integers(6, 13))
  if kind == 'feature_scale':
    G *= 10.0 ** -rng.integers(0, 13, size=(1, n)).astype(np.float64)
  return G


def run(plan, prop=None):
  import numpy as np
  import jax
  import jax.numpy as jnp
  from precondition.oco import algorithms as alg
  from precondition.oco import train
  from sim import fd_oracle
  from sim.ctx import Ctx
  prop = prop or plan.get('prop', 'C16')
  ctx = Ctx(plan, prop)
  a = alg.Algorithm[plan['alg']]
  shape = tuple(plan['shape'])
  n = int(np.prod(shape))
  delta, lr, k = float(plan['delta']), float(plan['lr']), int(plan['sketch_size'])
  hp = alg.HParams(delta=delta, lr=lr, sketch_size=k, algorithm=a)
  init, update = alg.generate_init_update(shape, hp)
  G = _sequence(plan)[:len(plan['ops'])]
  T = G.shape[0]
  mk = 'oco_' + plan['alg']
  state = init()
  upd = jax.jit(lambda s, g: update(dict(s), jnp.zeros(()), g))
  states = [alg.as_np(state)]
  # references
  w_ref = np.zeros(n)
  w_mag = 0.0                 # largest partial sum / step seen so far
  diag = np.full(n, delta)
  C = np.zeros((n, n))         # exact covariance of the scaled gradients
  Cg = np.zeros((n, n))        # exact covariance of the raw gradients
  tau = 0.0
  w_full = np.zeros(n)
  lossless = True
  dead = False
  for t in range(T):
    ctx.op_index = t
    g = G[t]
    if not np.any(g):
      ctx.probe('zero_row')
    prev = states[-1]
    state = upd(state, jnp.asarray(g.reshape(shape)))
    cur = alg.as_np(state)
    states.append(cur)
    w = cur['w'].reshape(-1)
    ctx.saw_op('STEP')
    bad = [k_ for k_, v_ in cur.items() if not np.all(np.isfinite(v_))]
    if bad and np.all(np.isfinite(g)) and (delta > 0 or plan['alg'] in (
        'OGD', 'ADA')):
      # finite gradients, positive regularisation: the state must stay finite
      ctx.violate('state_finite', mk, 'nonfinite_state_for_finite_gradients',
                  tick=t, leaves=bad)
      ctx.ev('state_finite', 'violation')
      dead = True
    if bad:
      ctx.ev('state_finite', 'vacuous')
      dead = True
    if dead:
      ctx.ticks += 1
      continue
    tt = t + 1
    if plan['alg'] == 'OGD':
      inc = lr * g / np.sqrt(tt + delta)
      w_ref = w_ref - inc
      # (the iterate is a sum of steps that may cancel: rounding is relative
      # to the largest partial sum, not to the final value)
      w_mag = max(float(w_mag), float(np.max(np.abs(w_ref))),
                  float(np.max(np.abs(inc))) if inc.size else 0.0)
      _close(ctx, 'ogd', mk, t, w, w_ref, 1e-12, np, floor=w_mag)
    elif plan['alg'] == 'ADA':
      diag = diag + g * g
      inc = lr * g / np.sqrt(np.where(diag == 0, 1.0, diag))
      w_ref = w_ref - inc
      w_mag = max(float(w_mag), float(np.max(np.abs(w_ref))),
                  float(np.max(np.abs(inc))) if inc.size else 0.0)
      _close(ctx, 'ada', mk, t, w, w_ref, 1e-12, np, floor=w_mag)
      _close(ctx, 'ada', mk, t, cur['diag_h'].reshape(-1), diag, 1e-12, np)
    else:
      fac = {'S_ADA': 1.0, 'ADA_FD': 1.0,
             'RFD_SON': 1.0 / np.sqrt(tt * lr),
             'FD_SON': 1.0 / np.sqrt(np.sqrt(tt) * lr)}[plan['alg']]
      gs = g * fac
      P, e = cur['P'], cur['e']
      # last sketch row is zero after every step
      ok = abs(e[-1]) <= 1e-9 * max(float(np.max(np.abs(e))), 1e-300) or e[-1] == 0
      ctx.ev('sketch_last_row', 'ok' if ok else 'violation')
      if not ok:
        ctx.violate('sketch_last_row', mk, 'last_row_not_zero', tick=t,
                    last=float(e[-1]))
      P0, e0 = prev['P'], prev['e']
      r_t, _ = fd_oracle.kth_eig(P0.T, e0 ** 2, gs.reshape(-1, 1), 1.0, k - 1)
      tau += r_t
      C = C + np.outer(gs, gs)
      Cg = Cg + np.outer(g, g)
      if np.all(np.isfinite(e)) and np.all(np.isfinite(P)):
        fd_oracle.check_sketch(ctx, mk, t, 'sketch', P.T, e ** 2, tau, C,
                               tol=1e-8, extra=dict(k=k, n=n))
      else:
        ctx.ev('fd_bracket', 'vacuous')
      a_fac = {'S_ADA': 1.0, 'RFD_SON': 0.5, 'ADA_FD': 0.0, 'FD_SON': 0.0}[
          plan['alg']]
      want_alpha = delta + a_fac * tau
      oka = abs(float(cur['alpha']) - want_alpha) <= 1e-9 * max(
          abs(want_alpha), float(np.trace(C)), 1e-300)
      ctx.ev('sada_alpha', 'ok' if oka else 'violation')
      if not oka:
        ctx.violate('sada_alpha', mk, 'alpha_not_delta_plus_escaped_mass',
                    tick=t, got=float(cur['alpha']), want=want_alpha)
      if plan['alg'] == 'S_ADA' and delta > 0:
        # exact upper bound on the rank of the history (a numerical rank would
        # miss rows 1e6 times smaller than the others, whose mass the sketch
        # does deflate): number of non-zero rows so far, capped by the rank the
        # sequence was generated with
        nz_rows = int(np.sum(np.any(G[:t + 1] != 0, axis=1)))
        cap = int(plan['seq_rank']) if plan['seq_kind'] == 'lowrank' else n
        rk = min(nz_rows, cap)
        if rk >= k:
          lossless = False
        if lossless:
          ctx.probe('lossless_regime')
          wv, U = np.linalg.eigh(delta * np.eye(n) + Cg)
          w_full = w_full - lr * (U * wv ** -0.5) @ U.T @ g
          # both sides lose accuracy with the conditioning of delta*I + C
          kap_max = max(locals().get('kap_max', 1.0), float(wv[-1] / wv[0]))
          rel = 1e-9 + 256 * 2.0 ** -53 * kap_max
          if rel > 1e-4:
            ctx.ev('sada_lossless', 'vacuous')
          else:
            _close(ctx, 'sada_lossless', mk, t, w, w_full, rel, np)
    ctx.ticks += 1
    ctx.state(plan['alg'], plan['seq_kind'], int(lossless), int(delta > 0), k,
              t % 4)
    ctx.log.add(op='STEP', t=t, w=[float(x) for x in np.round(w, 12)][:4])
  ctx.max_clock = T
  # compiled twin: the same sequence through the scan/fori_loop runner
  obs = [o for o in plan.get('obs', [0, T]) if o <= T]
  if len(obs) >= 2 and T > 0:
    st0 = init()
    st0['loss'] = jnp.array(0.0, dtype=jnp.float64)
    st0['n'] = 0
    loss = lambda w_, r, y: jnp.sum(w_.reshape(-1) * r)
    hist = train._compiled_run_dataset(
        jnp.asarray(G), jnp.zeros((T,)), st0, jnp.asarray(obs, jnp.int32),
        jax.value_and_grad(loss), update, None)
    hw = np.asarray(hist['w'])
    for j, o in enumerate(obs):
      ctx.probe('compiled_twin_checked')
      want = states[o]['w']
      _close(ctx, 'compiled_twin', mk, o, hw[j].reshape(-1), want.reshape(-1),
             1e-9, np, pred='history_at_observation_index')
      if int(np.asarray(hist['n'])[j]) != o:
        ctx.violate('compiled_twin', mk, 'rows_consumed_mismatch', obs=o,
                    got=int(np.asarray(hist['n'])[j]))
  return ctx.result()


def _close(ctx, oracle, mk, t, got, want, rel, np, pred='closed_form', floor=0.0):
  got, want = np.asarray(got, np.float64), np.asarray(want, np.float64)
  if not np.all(np.isfinite(want)):
    ctx.ev(oracle, 'vacuous')
    return
  sc = max(float(np.max(np.abs(want))) if want.size else 0.0, float(floor))
  d = float(np.max(np.abs(got - want))) if np.all(np.isfinite(got)) else float('inf')
  ok = d <= rel * max(sc, 1e-300) + 1e-300
  ctx.ev(oracle, 'ok' if ok else 'violation', d / (rel * max(sc, 1e-300) + 1e-300))
  if not ok:
    ctx.violate(oracle, mk, pred, tick=t, diff=d, scale=sc)


def simplifications(plan):
  import copy
  T = len(plan['ops'])
  for n in (1, 2, 3):
    if T > n:
      c = copy.deepcopy(plan)
      c['ops'] = plan['ops'][:n]
      c['obs'] = [o for o in plan['obs'] if o <= n] + [n]
      c['obs'] = sorted(set(c['obs']))
      yield c
  for k in ('dense',):
    if plan['seq_kind'] != k:
      c = copy.deepcopy(plan)
      c['seq_kind'] = k
      yield c
