"""C09, Distributed Shampoo frequent-directions part."""
from sim import ds_gen
from sim.props import common
from sim.util import pick, wpick


def generate(rng, tier, T):
  cfg = ds_gen.gen_config(rng)
  r = pick(rng, [1, 2, 3])
  cfg.update({
      'compression_rank': r, 'frequent_directions': True,
      'reuse_preconditioner': True, 'block_size': pick(rng, [8, 16]),
      'precondtioner_type': 1, 'average_grad': False,
      'beta2': pick(rng, [1.0, 0.999, 0.9, 0.5]),
      'matrix_epsilon': pick(rng, [0.0, 1e-12, 1e-6, 1e-3]),
      'exponent_override': pick(rng, [0, 0, 2, 4]),
      'best_effort_memory_usage_reduction': False,
      # the FD root always reports error 0; threshold 0 rejects every sketch
      # update by design (C03), which is not what C09 is about
      'inverse_failure_threshold': pick(rng, [0.1, 0.1, 1e30]),
  })
  p = pick(rng, [1, 1, 2, 3])
  cfg['preconditioning_compute_steps'] = p
  cfg['statistics_compute_steps'] = p
  cfg['skip_preconditioning_rank_lt'] = 1
  cfg.pop('skip_preconditioning_dim_size_gt', None)
  if rng.random() < 0.25:
    cfg['reset_preconditioner'] = True
    cfg['beta2'] = pick(rng, [0.5, 0.75, 0.9])
  # leaves: same-size statistics (no padding) or mixed sizes (padding)
  same = rng.random() < 0.5
  cfg['best_effort_shape_interpretation'] = False
  d0 = pick(rng, [6, 7, 8])
  if same:
    tree = [[d0, d0]] if rng.random() < 0.5 else [[d0, d0], [d0, d0]]
    if rng.random() < 0.35:
      # rank-3 tensor, not merged: sketches of axes 0, 1 and 2
      d0 = pick(rng, [6, 7])
      tree = [[d0, d0, d0]]
  else:
    tree = [[d0, pick(rng, [2, 3, 4])], [pick(rng, [5, 6]), 2]]
    if rng.random() < 0.5:
      tree.append([pick(rng, [9, 10])])
  ops = []
  n = len(tree)
  for t in range(T):
    k = wpick(rng, [('normal', 5), ('lowrank', 4), ('zero', 2), ('sparse', 1)])
    op = ds_gen.gen_step(rng, n, kind=k, scale_jump=rng.random() < 0.3)
    if k == 'lowrank':
      op['rank'] = 1
    op.pop('leaf_scales', None)
    ops.append(op)
    rr = rng.random()
    if rr < 0.08:
      ops.append({'op': 'CHECKPOINT', 'sync': True})
    elif rr < 0.13:
      ops.append({'op': 'CRASH_RESTORE', 'which': rng.randrange(-2, 1)})
  return {'system': 'ds', 'class': 'ds_fd' + ('_same' if same else '_padded'),
          'x64': False, 'mode': 'jit', 'D': 1, 'mesh': 1, 'config': cfg,
          'tree': tree, 'lr': ds_gen.gen_lr(rng),
          'param_seed': rng.randrange(1000), 'ops': ops, 'oracles': ['fd_ds']}


def run(plan):
  from sim import ds_run
  ds_run.register('fd_ds', fd_ds)
  return ds_run.run(plan, 'C09')


def fd_ds(ctx, rec):
  import numpy as np
  from precondition import distributed_shampoo as dsm
  from sim import fd_oracle
  from sim.refmodel import ds as ref
  from sim.refmodel import shapes as shp
  w, view = rec['world'], rec['view']
  cfg, t = w.cfg, rec['t']
  prev, new = rec['prev'], rec['new']
  mk = 'ds_fd'
  r = int(cfg['compression_rank'])
  beta = 1.0 if cfg.get('reset_preconditioner') else float(cfg.get('beta2', 0.999))
  reset_f = None
  if cfg.get('reset_preconditioner') and cfg.get('beta2', 0.999) != 1:
    reset_f = int(np.round(1 / (1 - cfg['beta2'])))
  eps0 = float(cfg.get('matrix_epsilon', 1e-6))
  rel = bool(cfg.get('relative_matrix_epsilon', True))
  pt, _ = ref.precond_tick(cfg, w.lr_spec, t)
  hist = ctx.__dict__.setdefault('hist', {})
  cov = hist.setdefault('cov', {})
  slack = hist.setdefault('slack', {})
  max_size = view.layout['max_size']
  for i, leaf in enumerate(view.layout['leaves']):
    if leaf['skip']:
      continue
    if i in rec['poisoned']:
      ctx.ev('fd_bracket', 'muted')
      continue
    g = np.asarray(rec['grads'][i], np.float64).reshape(leaf['tshape'])
    for j, (bi, ax, d) in enumerate(leaf['stats']):
      if shp.precond_dim(r, d) == d:
        continue       # too small to be sketched: full statistics
      key = (i, j)
      P0 = view.precond(prev, i, j)
      P1 = view.precond(new, i, j)
      V0, l0, _, _, tau0, _ = [np.asarray(x, np.float64) for x in
                               dsm._fd_low_rank_unpack(np.asarray(P0, np.float32), r)]
      V1, l1, inv1, const1, tau1, hz1 = [np.asarray(x, np.float64) for x in
                                         dsm._fd_low_rank_unpack(np.asarray(P1, np.float32), r)]
      tau0, tau1, const1 = float(tau0), float(tau1), float(const1)
      if key not in cov:
        if t != 0 and np.any(P0):
          continue
        cov[key] = np.zeros((d, d))
        slack[key] = 0.0
      if not pt:
        if not np.array_equal(P0, P1):
          ctx.violate('fd_cadence', mk, 'sketch_changed_off_refresh', tick=t)
        continue
      blk = g[leaf['blocks'][bi][0]]
      G = np.moveaxis(blk, ax, 0).reshape(d, -1)
      if reset_f is not None and t % reset_f == 0:
        cov[key] = np.zeros((d, d))
        slack[key] = 0.0
        V0 = np.zeros_like(V0)
        l0 = np.zeros_like(l0)
        tau0 = 0.0
        ctx.probe('fd_reset_tick')
      lam1 = float(l0[0]) if rel else 1.0
      ridge = eps0 * max(lam1, 1e-6)
      active = (np.arange(r) < d)
      l0r = (l0 + ridge) * active
      cov[key] = beta * cov[key] + G @ G.T
      slack[key] = beta * (slack[key] + ridge)
      C = cov[key]
      padded = d < max_size
      pred = 'statistic_smaller_than_max_size' if padded else 'bracket'
      where = f'p{i}.stat[{j}]'
      extra = dict(k=r, d=d, beta=beta, max_size=max_size)
      fd_oracle.check_sketch(ctx, mk, t, where, V1, l1, tau1, C,
                             slack=slack[key] * 1.001 + 1e-30, tol=2e-4,
                             pred=pred, extra=extra)
      r_t, wfull = fd_oracle.kth_eig(V0, l0r, G, beta, r)
      want = beta * tau0 + r_t
      sc = max(float(wfull[0]) if len(wfull) else 0.0, tau0, 1e-300)
      tolr = 2e-4 * sc
      okr = abs(tau1 - want) <= tolr
      if not np.any(G):
        ctx.probe('fd_zero_tick')
      if tau0 > 0 and beta < 1:
        ctx.probe('fd_discounted_tail')
      ctx.ev('fd_tail_recurrence', 'ok' if okr else 'violation',
             abs(tau1 - want) / tolr)
      if not okr:
        ctx.violate('fd_tail_recurrence', mk,
                    pred if padded else 'step', tick=t, where=where, got=tau1,
                    want=want, prev_tail=tau0, r=r_t, **extra)
      rk = np.linalg.matrix_rank(C, tol=1e-9 * max(np.trace(C), 1e-300)) \
          if np.any(C) else 0
      if rk <= r and slack[key] == 0.0:
        ctx.probe('fd_rank_deficient_history')
        okl = tau1 <= 1e-5 * max(float(np.trace(C)), 1e-300)
        ctx.ev('fd_lowrank_exact', 'ok' if okl else 'violation')
        if not okl:
          ctx.violate('fd_lowrank_exact', mk,
                      pred if padded else 'tail_nonzero_for_rank_le_k',
                      tick=t, where=where, tail=tau1, rank=int(rk), **extra)
      p = leaf['exponent']
      with np.errstate(divide='ignore', invalid='ignore'):
        want_inv = np.where(l1 > 0, (l1 + tau1) ** (-1.0 / p), 0.0)
        want_c = tau1 ** (-1.0 / p) if tau1 > 0 else 0.0
      if np.all(np.isfinite(want_inv)) and np.isfinite(want_c) and not padded:
        tol_i = 5e-4 * (float(np.max(np.abs(want_inv))) if r else 0.0) + 1e-30
        oki = np.max(np.abs(inv1 - want_inv)) <= tol_i and \
            abs(const1 - want_c) <= 5e-4 * abs(want_c) + 1e-30
        ctx.ev('fd_inverse', 'ok' if oki else 'violation')
        if not oki:
          ctx.violate('fd_inverse', mk, 'stored_inverse_root_mismatch', tick=t,
                      where=where, inv=[float(x) for x in inv1],
                      want=[float(x) for x in want_inv], const=const1,
                      want_const=want_c, **extra)
      else:
        ctx.ev('fd_inverse', 'vacuous')
  ctx.state('fd', mk, int(pt), rec['opkind'], r, int(beta < 1), t % 5,
            int(max_size))
