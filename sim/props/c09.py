"""C09 - frequent-directions sketch brackets the true second moment."""
from sim import ds_gen, tf_gen
from sim.props import common
from sim.util import derive_rng, pick, wpick

LEVEL = 'exploration'
BUDGET = {
    'quick': dict(runs=200, wall=420, timeout=600, det=4, minimise=40),
    'thorough': dict(runs=3000, wall=3000, timeout=600, det=16, minimise=200),
}
RULE = ('Each run = one sketching system (Tearfree Sketchy per-axis state, '
        'Distributed Shampoo frequent-directions root decoded from the packed '
        'preconditioner slot, OCO sketches) with rank k, decay b, a tree with '
        'leaves of different sizes (padding) and a history mixing full-rank, '
        'rank<=k, zero and scale-jump ticks, restores and clock jumps; after '
        'every sketch update the state is compared with the exact float64 '
        'discounted covariance. Distinct non-trivial = distinct (system, '
        'update tick?, op kind, k, decay<1?, t mod 5) abstract states.')
COMPONENTS = {
    'real': ['precondition.tearfree.sketchy', 'precondition.distributed_shampoo '
             '(_fd_update_root, frequent_directions_update, packing)',
             'precondition.oco.algorithms._fd_update_fn', 'jax/XLA CPU (svd, qr)'],
    'simulated': ['clock, checkpoint store, crash/restore'],
    'stub': ['gradient source (full-rank / low-rank / zero / scale jumps)'],
    'reference': ['exact float64 covariance C_t = b C_{t-1} + G G^T kept by the '
                  'oracle; r_t recomputed from the stored previous sketch'],
}
ASSUMPTIONS = [
    'float32 sketches: orthonormality and bracket tolerances 1e-4 (relative to '
    '||C||), probed headroom >= 60x',
    'the DS frequent-directions path is only driven with finite gradients: '
    'its unguarded LAPACK svd/qr hangs on non-finite input (DESIGN 6)']
EXPECTED_PROBES = ['fd_zero_tick', 'fd_rank_deficient_history',
                   'fd_discounted_tail']


def generate(seed, idx, tier):
  rng = derive_rng(seed, 'C09', idx)
  sysm = wpick(rng, [('tf_sketchy', 5), ('ds_fd', 3), ('oco', 2)])
  T = rng.randrange(6, 18) if tier == 'quick' else rng.randrange(8, 41)
  if sysm == 'oco':
    from sim.props import c16
    return c16.gen_plan(rng, tier, sketched_only=True, prop='C09')
  if sysm == 'ds_fd':
    from sim.props import c09_ds
    return c09_ds.generate(rng, tier, T)
  cfg = tf_gen.gen_config(rng, so='sketchy')
  cfg['sketchy']['rank'] = wpick(rng, [(1, 3), (2, 3), (3, 2), (4, 1)])
  cfg['sketchy']['second_moment_decay'] = pick(rng, [1.0, 0.999, 0.9, 0.5])
  tree = tf_gen.gen_tree(rng, cfg)
  sched = {'preconditioning_compute_steps': cfg['sketchy']['update_freq'],
           'statistics_compute_steps': 1,
           'start_preconditioning_step':
           cfg['graft']['start_preconditioning_step']}
  ops = []
  n = len(tree)
  for t in range(T):
    k = wpick(rng, [('normal', 5), ('lowrank', 4), ('zero', 3), ('sparse', 1)])
    op = ds_gen.gen_step(rng, n, kind=k, scale_jump=rng.random() < 0.3)
    if k == 'lowrank':
      op['rank'] = 1
    ops.append(op)
    r = rng.random()
    if r < 0.1:
      ops.append({'op': 'CHECKPOINT', 'sync': True})
    elif r < 0.16:
      ops.append({'op': 'CRASH_RESTORE', 'which': rng.randrange(-2, 1)})
    elif r < 0.2:
      ops.append({'op': 'CLOCK_JUMP', 'to': common.gen_jump_target(rng, sched)})
  # rank<=k histories: some runs use only low-rank/zero ticks
  if rng.random() < 0.3:
    gs = rng.randrange(1 << 30)
    for op in ops:
      if op['op'] == 'STEP':
        op['kind'] = 'zero' if rng.random() < 0.2 else 'lowrank'
        op['rank'] = 1
        op['gseed'] = gs      # the same rank-1 direction again and again
  return {'system': 'tearfree', 'class': 'tf_sketchy', 'mode': 'jit',
          'x64': False, 'config': cfg, 'tree': tree, 'lr': ds_gen.gen_lr(rng),
          'param_seed': rng.randrange(1000), 'ops': ops, 'oracles': ['fd']}


def run(plan):
  if plan['system'] == 'tearfree':
    from sim import tf_run
    return tf_run.run(plan, 'C09')
  if plan['system'] == 'oco':
    from sim.props import c16
    return c16.run(plan, prop='C09')
  from sim.props import c09_ds
  return c09_ds.run(plan)


def simplifications(plan):
  from sim.harness import generic_simplifications
  return generic_simplifications(plan)
