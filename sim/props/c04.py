"""C04 - refresh cadence and warm-up follow the configured schedule."""
import functools

from sim import ds_gen
from sim.props import common
from sim.refmodel import shapes as shp
from sim.util import derive_rng, pick, wpick

LEVEL = 'exploration'
BUDGET = {
    'quick': dict(runs=170, wall=420, timeout=600, det=4, minimise=40),
    'thorough': dict(runs=2600, wall=3000, timeout=600, det=16, minimise=200),
}
RULE = ('Each run = one seeded (statistics interval s, preconditioner interval '
        'p or lr-scheduled interval, start step S, mode) and a history of '
        'STEP / CLOCK_JUMP (onto -1,0,+1 of each period and of S, up to 2^20) '
        '/ CHECKPOINT / CRASH_RESTORE to a stale checkpoint (clock runs '
        'backwards) / REJIT ops, for Distributed Shampoo (jit, simulated '
        'replicas, quantized, sharded) and Tearfree Shampoo / Sketchy. '
        'Distinct non-trivial = distinct abstract states (system mode, t mod '
        's, t mod p_t, warm/active, op kind just applied) at a tick where the '
        'bitwise cadence oracle ran.')
COMPONENTS = common.DS_COMPONENTS
ASSUMPTIONS = [
    'the schedule automaton (t % s, t % p_t, t >= S) is written from the '
    'docstrings; p_t for lr-scheduled intervals is evaluated in float64 and '
    'ticks within 1e-3 of a multiple of 10 before flooring are dont-care',
    'CLOCK_JUMP = restoring a checkpoint whose counters were edited']
EXPECTED_PROBES = ['clock_jump', 'interval_schedule_changed_value',
                   'warmup_boundary_discriminated', 'restore_on_refresh_tick',
                   'stats_changed_on_tick', 'precond_changed_on_tick']


GRID = [(s, p, S) for s in (1, 2, 3, 5, 7) for p in (1, 2, 3, 4, 6, 10)
        for S in (0, 1, 2, 5, 6)]


def _grid(rng, tier, idx):
  """The (s, p, S) grid is walked by run index (a fixed permutation), so N
  runs cover min(N, 150) distinct cells; everything else is drawn."""
  return GRID[(idx * 37) % len(GRID)]


def generate(seed, idx, tier):
  rng = derive_rng(seed, 'C04', idx)
  if rng.random() < 0.3:
    from sim.props import c04_tf
    return c04_tf.generate(rng, tier)
  mode, D, mesh, quant = common.choose_mode(
      rng, [('jit', 4), ('vmap', 1), ('vmapq', 2), ('sharded', 3)])
  x64 = rng.random() < 0.85
  s, p, S = _grid(rng, tier, idx)
  cfg = ds_gen.gen_config(rng, emph={
      'eps': [(1e-1, 2), (1e-2, 2), (1e-3, 3), (1e-6, 2)],
      'thr': [(0.1, 5), (0.01, 1), (0.7, 1), (0.2, 1), (1e30, 1)]})
  cfg['statistics_compute_steps'] = s
  cfg['preconditioning_compute_steps'] = p
  cfg['start_preconditioning_step'] = S
  lr = ds_gen.gen_lr(rng)
  if rng.random() < 0.3:
    cfg['decay_preconditioning_compute_steps'] = True
    cfg['end_preconditioning_compute_steps'] = pick(rng, [10, 20, 30])
    cfg['preconditioning_compute_steps'] = pick(rng, [1, 2, 5, 10])
    lr = {'kind': 'linear', 'v': pick(rng, [1.0, 0.5, 0.1]),
          'T': pick(rng, [16, 32, 64]), 'floor': pick(rng, [0.0, 0.25])}
  cfg = common.constrain(cfg, mode, quant, x64)
  tree = ds_gen.fix_tree_for_config(rng, ds_gen.gen_tree(rng), cfg)
  if mode == 'sharded':
    n = shp.tree_layout(tree, cfg)['n_stats']
    if not common.sharded_mesh_ok(n, D, mesh):
      mesh = 1
  T = rng.randrange(8, 22) if tier == 'quick' else rng.randrange(10, 41)
  ops = common.gen_history(rng, cfg, len(tree), T, 0.0, jumps=0.12,
                           scale_jumps=0.3)
  return {'system': 'ds', 'class': f"ds_{mode}{'_q' if quant else ''}",
          'x64': x64, 'mode': mode, 'D': D, 'mesh': mesh, 'config': cfg,
          'tree': tree, 'lr': lr, 'param_seed': rng.randrange(1000),
          'ops': ops, 'oracles': ['cadence', 'warmup', 'roots', 'refine_stats']}


def run(plan):
  if plan['system'] == 'tearfree':
    from sim.props import c04_tf
    return c04_tf.run(plan)
  from sim import ds_oracles, ds_run
  ds_run.register('refine_stats', functools.partial(
      ds_oracles.refine, oracles=('step_stats',)))
  return ds_run.run(plan, 'C04')


def simplifications(plan):
  from sim.harness import generic_simplifications
  return generic_simplifications(plan)
