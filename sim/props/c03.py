"""C03 - a preconditioner is replaced only by a verified root."""
from sim import ds_gen
from sim.props import common
from sim.refmodel import shapes as shp
from sim.util import derive_rng, pick, wpick

LEVEL = 'exploration'
BUDGET = {
    'quick': dict(runs=150, wall=420, timeout=600, det=4, minimise=40),
    'thorough': dict(runs=2400, wall=3000, timeout=600, det=16, minimise=200),
}
RULE = ('Each run = one seeded (config, tree, mode) of Distributed Shampoo and a '
        'seeded history of 8-40 ticks with gradient faults (NaN/Inf/zero/'
        'huge/big/tiny/subnormal) biased onto refresh ticks, checkpoints, '
        'crash-restores and re-jits. Distinct non-trivial = distinct abstract '
        'states (mode, refresh tick?, per-leaf health, any root rejected?, any '
        'accepted?, op kind) reached at a tick where the gate oracle ran.')
COMPONENTS = common.DS_COMPONENTS
ASSUMPTIONS = [
    'reported inverse_pth_root_errors in training_metrics are the values the '
    'gate tested (read from the public state)',
    'vmap named axis stands in for pmap replicas',
    'leaf poisoning is computed from the plan only, never from outputs']
EXPECTED_PROBES = ['root_rejected', 'root_accepted', 'refresh_on_fault_tick',
                   'all_roots_rejected', 'padding_statistic',
                   'restore_on_refresh_tick']


def generate(seed, idx, tier):
  rng = derive_rng(seed, 'C03', idx)
  mode, D, mesh, quant = common.choose_mode(rng)
  x64 = rng.random() < 0.8
  cfg = ds_gen.gen_config(rng, emph={
      'thr': [(0.1, 5), (0.01, 1), (0.7, 1), (0.003, 1), (0.2, 1), (0.0, 1),
              (1e-30, 1), (1e30, 2)],
      'eps': [(1e-1, 1), (1e-3, 2), (1e-6, 4), (1e-12, 2), (0.0, 2)]})
  cfg = common.constrain(cfg, mode, quant, x64)
  tree = ds_gen.fix_tree_for_config(rng, ds_gen.gen_tree(rng), cfg)
  if mode == 'sharded':
    n = shp.tree_layout(tree, cfg)['n_stats']
    if not common.sharded_mesh_ok(n, D, mesh):
      mesh = 1
  faulted = rng.random() < 0.8
  T = rng.randrange(8, 21) if tier == 'quick' else rng.randrange(8, 41)
  rate = 0.0 if not faulted else 1.0 / rng.randrange(4, 16)
  ops = common.gen_history(rng, cfg, len(tree), T, rate)
  return {'system': 'ds', 'class': f"{mode}{'_q' if quant else ''}"
          f"{'_faulted' if faulted else '_clean'}",
          'x64': x64, 'mode': mode, 'D': D, 'mesh': mesh, 'config': cfg,
          'tree': tree, 'lr': ds_gen.gen_lr(rng), 'param_seed': rng.randrange(1000),
          'ops': ops, 'oracles': ['gate']}


def run(plan):
  from sim import ds_run
  return ds_run.run(plan, 'C03')


def simplifications(plan):
  from sim.harness import generic_simplifications
  return generic_simplifications(plan)
