"""C12 - SM3 accumulators cover the true second moment."""
from sim import ds_gen
from sim.props import common
from sim.util import derive_rng, pick, wpick

LEVEL = 'exploration'
BUDGET = {
    'quick': dict(runs=300, wall=420, timeout=600, det=4, minimise=40),
    'thorough': dict(runs=5000, wall=3000, timeout=600, det=16, minimise=200),
}
RULE = ('Each run = one SM3 configuration (beta1 incl. 0 and 1, beta2 in (0,1], '
        'weight decay, gradient normalisation, lr schedule) on a tree of rank '
        '1-4 tensors and a history with zero ticks, scale jumps up to 1e+-6, '
        'checkpoints and crash-restores; per tick and coordinate the minimum '
        'over the coordinate\'s accumulators is compared with an exact float64 '
        'per-entry decayed sum kept by the oracle. Distinct non-trivial = '
        'distinct (max tensor rank, beta2<1?, beta1=0?, normalise?, op kind, '
        'zero tick?, t mod 4).')
COMPONENTS = {
    'real': ['precondition.sm3', 'precondition.quantization_utils (int8 '
             'momentum)', 'jax/XLA CPU', 'flax.serialization'],
    'simulated': ['clock, checkpoint store, crash/restore'],
    'stub': ['gradient source with scale jumps and zero ticks'],
    'reference': ['exact float64 per-entry accumulator b2*A + w*g^2'],
}
ASSUMPTIONS = ['float32 state, x64 off (the x64 dtype drift of the accumulators '
               'is a C07 matter)',
               'step bound and rank-1 equality are checked with beta1 = 0 and '
               'no weight decay, where the update is -lr * preconditioned '
               'gradient']
EXPECTED_PROBES = ['zero_tick', 'restore', 'rank1_leaf', 'scale_jump']


def generate(seed, idx, tier):
  rng = derive_rng(seed, 'C12', idx)
  cfg = {'beta1': pick(rng, [0.0, 0.0, 0.5, 0.9, 1.0]),
         'beta2': pick(rng, [1.0, 1.0, 0.999, 0.9, 0.5]),
         'diagonal_epsilon': pick(rng, [1e-10, 1e-3]),
         'weight_decay': pick(rng, [0.0, 0.0, 0.01]),
         'normalize_grads': rng.random() < 0.3}
  n = pick(rng, [1, 2, 3])
  tree = [ds_gen.gen_shape(rng, allow_rank0=False) for _ in range(n)]
  T = rng.randrange(5, 16) if tier == 'quick' else rng.randrange(8, 41)
  ops = []
  for t in range(T):
    k = wpick(rng, [('normal', 6), ('sparse', 2), ('zero', 2), ('lowrank', 1),
                    ('onehot_leaf', 1)])
    op = ds_gen.gen_step(rng, n, kind=k)
    if rng.random() < 0.3:
      op['scale'] = 10.0 ** rng.randrange(-6, 7)
    ops.append(op)
    r = rng.random()
    if r < 0.1:
      ops.append({'op': 'CHECKPOINT', 'sync': True})
    elif r < 0.17:
      ops.append({'op': 'CRASH_RESTORE', 'which': rng.randrange(-2, 1)})
  return {'system': 'sm3', 'class': 'sm3', 'x64': False, 'mode': 'jit',
          'config': cfg, 'tree': tree, 'lr': ds_gen.gen_lr(rng),
          'param_seed': rng.randrange(1000), 'ops': ops}


def run(plan, prop='C12', extra_oracle=None, own_oracles=True):
  import copy
  import numpy as np
  from sim.ctx import Ctx
  from sim.ds_world import named_leaves, sha_leaves, signature
  from sim.grads import make_grads, make_params
  from sim.refmodel.ds import lr_value
  from sim.sm3_world import SM3World
  ctx = Ctx(plan, prop)
  shapes = [tuple(s) for s in plan['tree']]
  params = make_params(shapes, plan.get('param_seed', 0))
  world = SM3World(plan)
  cfg = world.cfg
  state = world.init(params)
  sig0 = signature(state)
  b1, b2 = cfg['beta1'], cfg['beta2']
  w2 = 1.0 if b2 == 1.0 else 1.0 - b2
  exact = [np.zeros(s) for s in shapes]
  durable = {}
  t = 0
  mk = 'sm3'
  for idx, op in enumerate(plan['ops']):
    ctx.op_index = idx
    kind = op['op']
    ctx.saw_op(kind)
    if kind == 'CHECKPOINT':
      durable[t] = (world.to_bytes(state), copy.deepcopy(exact))
      continue
    if kind == 'CRASH_RESTORE':
      if not durable:
        continue
      keys = sorted(durable)
      k = keys[int(op.get('which', -1)) % len(keys)]
      data, ex = durable[k]
      world = SM3World(plan)
      state = world.from_bytes(world.init(params), data)
      exact = copy.deepcopy(ex)
      t = k
      ctx.__dict__.pop('_carried', None)   # history oracles re-base
      ctx.probe('restore')
      ctx.log.add(op=kind, at=k)
      continue
    grads, _ = make_grads(shapes, op)
    if op.get('scale', 1.0) != 1.0:
      ctx.probe('scale_jump')
    prev = named_leaves(state)
    u, state = world.update(grads, state, params)
    new = named_leaves(state)
    ups = world.updates_np(u)
    lr = lr_value(world.lr_spec, t)
    zero_tick = not any(np.any(g) for g in grads)
    if zero_tick:
      ctx.probe('zero_tick')
    maxrank = 0
    for i, s in enumerate(shapes):
      if not own_oracles:
        break
      g = np.asarray(grads[i], np.float64)
      if cfg['normalize_grads']:
        g32 = np.asarray(grads[i], np.float32)
        g = g / (float(np.linalg.norm(g32)) + 1e-16)
      exact[i] = b2 * exact[i] + w2 * g * g
      rank = len(s)
      maxrank = max(maxrank, rank)
      accs = [np.asarray(new[f".stats['p{i}'].diagonal_statistics[{a}]"],
                         np.float64) for a in range(rank)]
      paccs = [np.asarray(prev[f".stats['p{i}'].diagonal_statistics[{a}]"],
                          np.float64) for a in range(rank)]
      mn = None
      for a, acc in enumerate(accs):
        shp_ = [1] * rank
        shp_[a] = s[a]
        e = acc.reshape(shp_)
        mn = e if mn is None else np.minimum(mn, e)
      mn = np.broadcast_to(mn, s)
      A = exact[i]
      if not (np.all(np.isfinite(mn)) and np.all(np.isfinite(A))):
        ctx.ev('sm3_cover', 'vacuous')
        continue
      slack = float(np.min(mn - A * (1 - 1e-5))) if A.size else 0.0
      sc = float(np.max(A)) if A.size else 0.0
      ok = slack >= -1e-30 - 1e-7 * sc * 0
      ok = bool(np.all(mn >= A * (1 - 1e-5) - 1e-38))
      ctx.ev('sm3_cover', 'ok' if ok else 'violation')
      if not ok:
        bad = np.argwhere(mn < A * (1 - 1e-5) - 1e-38)[0].tolist()
        ctx.violate('sm3_cover', mk, f'rank{rank}_accumulator_below_exact_sum',
                    tick=t, leaf=i, coord=bad,
                    got=float(mn[tuple(bad)]), exact=float(A[tuple(bad)]))
      if b2 == 1.0:
        for a in range(rank):
          okm = bool(np.all(accs[a] >= paccs[a] * (1 - 1e-7)))
          ctx.ev('sm3_monotone', 'ok' if okm else 'violation')
          if not okm:
            ctx.violate('sm3_monotone', mk, 'accumulator_decreased', tick=t,
                        leaf=i, axis=a)
      if b1 == 0.0 and cfg['weight_decay'] == 0.0:
        uu = np.abs(np.asarray(ups[i], np.float64))
        bound = abs(lr) * np.abs(g) / np.sqrt(A + cfg['diagonal_epsilon'])
        oks = bool(np.all(uu <= bound * (1 + 1e-5) + 1e-38))
        ctx.ev('sm3_step_bound', 'ok' if oks else 'violation')
        if not oks:
          ctx.violate('sm3_step_bound', mk, 'step_larger_than_adagrad', tick=t,
                      leaf=i)
        if rank == 1:
          ctx.probe('rank1_leaf')
          oke = bool(np.all(np.abs(uu - bound) <= 1e-5 * bound + 1e-38))
          ctx.ev('sm3_rank1', 'ok' if oke else 'violation')
          if not oke:
            ctx.violate('sm3_rank1', mk, 'rank1_differs_from_diagonal_adagrad',
                        tick=t, leaf=i)
    if signature(state) != sig0:
      ctx.violate('layout_fixed_point', mk, 'state_signature_changed', tick=t)
    if extra_oracle:
      extra_oracle(ctx, dict(t=t, prev=prev, new=new, updates=ups, grads=grads,
                             cfg=cfg, lr=lr, shapes=shapes, zero_tick=zero_tick,
                             params=params))
    ctx.ticks += 1
    ctx.log.add(op='STEP', t=t, upd=sha_leaves(
        {str(i): x for i, x in enumerate(ups)}), st=sha_leaves(new))
    ctx.state(maxrank, int(b2 < 1), int(b1 == 0), int(cfg['normalize_grads']),
              kind, int(zero_tick), t % 4)
    t += 1
    ctx.max_clock = max(ctx.max_clock, t)
  return ctx.result()


def simplifications(plan):
  from sim.harness import generic_simplifications
  return generic_simplifications(plan)
