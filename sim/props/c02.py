"""C02 - Distributed Shampoo update equals the documented blocked-Shampoo math."""
from sim import ds_gen
from sim.props import common
from sim.refmodel import shapes as shp
from sim.util import derive_rng, pick, wpick

LEVEL = 'exploration'
BUDGET = {
    'quick': dict(runs=170, wall=420, timeout=600, det=4, minimise=40),
    'thorough': dict(runs=2600, wall=3000, timeout=600, det=16, minimise=200),
}
RULE = ('Each run = one seeded option combination (7 grafts x beta1/beta2 x '
        'nesterov x moving average x weight decay x lr/wd decoupling x lr '
        'schedule x block size x merging x preconditioner type x exponent '
        'override x start step x intervals x skip thresholds x Newton/eigh) '
        'on a seeded tree of rank 0-4 and a history of 8-40 ticks; at every '
        'tick a float64 reference model fed the implementation\'s own previous '
        'state predicts update, statistics, both momenta and the graft '
        'accumulator. Distinct non-trivial = distinct (mode, graft, nesterov, '
        'warm/active, statistics tick?) abstract states with a non-vacuous '
        'comparison.')
COMPONENTS = dict(common.DS_COMPONENTS)
COMPONENTS['reference'] = ['sim/refmodel/ds.py: numpy float64 model written '
                           'from the docstrings and the paper (DESIGN app. A); '
                           'roots are taken from the implementation state and '
                           'checked separately by the root oracle (C01)']
ASSUMPTIONS = [
    'one-step refinement: the model is fed the implementation\'s previous '
    'state, so state that is returned but never threaded through would be '
    'caught only by the bitwise layout / resume checks',
    'replicated mode uses the roots stored after the tick, sharded mode those '
    'stored before it']
EXPECTED_PROBES = []


def generate(seed, idx, tier):
  rng = derive_rng(seed, 'C02', idx)
  mode, D, mesh, quant = common.choose_mode(
      rng, [('jit', 6), ('vmap', 1), ('vmapq', 1), ('sharded', 3)])
  x64 = rng.random() < 0.9
  cfg = ds_gen.gen_config(rng, emph={
      'eps': [(1e-1, 3), (1e-2, 3), (1e-3, 3), (1e-6, 2), (1e-12, 1)],
      'thr': [(0.1, 1)]})
  cfg = common.constrain(cfg, mode, quant, x64)
  tree = ds_gen.fix_tree_for_config(rng, ds_gen.gen_tree(rng), cfg,
                                    need_stat=rng.random() < 0.9)
  if mode == 'sharded':
    n = shp.tree_layout(tree, cfg)['n_stats']
    if not common.sharded_mesh_ok(n, D, mesh):
      mesh = 1
  faulted = rng.random() < 0.25
  T = rng.randrange(8, 21) if tier == 'quick' else rng.randrange(8, 41)
  ops = common.gen_history(rng, cfg, len(tree), T,
                           0.0 if not faulted else 1.0 / rng.randrange(6, 16),
                           jumps=0.05)
  return {'system': 'ds', 'class': f"{mode}{'_q' if quant else ''}"
          f"{'_faulted' if faulted else '_clean'}", 'x64': x64, 'mode': mode,
          'D': D, 'mesh': mesh, 'config': cfg, 'tree': tree,
          'lr': ds_gen.gen_lr(rng), 'param_seed': rng.randrange(1000),
          'params_follow': rng.random() < 0.5, 'ops': ops,
          'oracles': ['refine', 'roots']}


def run(plan):
  from sim import ds_run
  return ds_run.run(plan, 'C02')


def simplifications(plan):
  from sim.harness import generic_simplifications
  return generic_simplifications(plan)
