"""C13 - device-count invariance of the distributed preconditioner computation.

Twin run: the same plan on D simulated replicas (vmap named axis, D in 1..13),
on D real host devices (pmap, D<=8) and on one replica; sharded mode with
different declared device counts. RESCALE ops change D mid-run.
"""
from sim import ds_gen
from sim.props import common
from sim.refmodel import shapes as shp
from sim.util import derive_rng, pick, wpick

LEVEL = 'exploration'
BUDGET = {
    'quick': dict(runs=72, wall=600, timeout=700, det=3, minimise=30),
    'thorough': dict(runs=1200, wall=3300, timeout=900, det=8, minimise=120),
}
RULE = ('Each run = one (config, tree, replica count D, representation: full / '
        'int16-quantized / low-rank compressed / sharded with declared device '
        'count) and a history with identical gradients on every replica, '
        'RESCALE{D2} and CRASH_RESTORE ops. Distinct non-trivial = distinct '
        '(representation, D, N mod D, N, rescaled?) tuples with D > 1.')
COMPONENTS = common.DS_COMPONENTS
ASSUMPTIONS = [
    'simulated replicas (vmap with a named axis) execute the same collectives '
    '(psum, axis_index, all_gather) as pmap; agreement with real pmap over '
    'forced host devices is itself checked in a subset of runs',
    'D=1 and D>1 are different compiled programs, so equality across D is '
    'checked to a rounding tolerance that grows with the condition number; '
    'equality across replicas of one run is checked bitwise']
EXPECTED_PROBES = ['fault_injected', 'N_mod_D_nonzero', 'rescale', 'pmap_crosscheck',
                   'sharded_declared_counts', 'quantized_replicas',
                   'compressed_replicas', 'D_gt_8', 'fd_replicas']


def generate(seed, idx, tier):
  rng = derive_rng(seed, 'C13', idx)
  rep = wpick(rng, [('full', 4), ('quant', 3), ('lowrank', 2), ('sharded', 3),
                    ('fd', 2)])
  x64 = rng.random() < 0.85
  cfg = ds_gen.gen_config(rng, emph={
      'eps': [(1e-1, 2), (1e-2, 2), (1e-3, 3), (1e-6, 2)], 'thr': [(0.1, 1)]})
  cfg['start_preconditioning_step'] = pick(rng, [0, 1, 2])
  quant = rep == 'quant'
  mode = 'sharded' if rep == 'sharded' else 'vmap'
  if rep == 'lowrank':
    cfg['compression_rank'] = pick(rng, [1, 2, -1])
    cfg['block_size'] = pick(rng, [8, 16])
  if rep == 'fd':
    # frequent-directions sketches carried in the previous preconditioner
    x64 = False
    cfg['compression_rank'] = pick(rng, [1, 2])
    cfg['block_size'] = pick(rng, [8, 16])
    cfg['frequent_directions'] = True
    cfg['statistics_compute_steps'] = cfg['preconditioning_compute_steps'] = \
        pick(rng, [1, 1, 2])
    cfg['precondtioner_type'] = 1
    cfg['average_grad'] = rng.random() < 0.3
  cfg = common.constrain(cfg, mode, quant, x64)
  if rep == 'fd':
    cfg['reuse_preconditioner'] = True
  tree = ds_gen.fix_tree_for_config(rng, ds_gen.gen_tree(rng), cfg)
  N = shp.tree_layout(tree, cfg)['n_stats']
  if mode == 'sharded':
    D = pick(rng, [2, 3, 4, 5, 6, 7, 8])
    D2 = pick(rng, [1, 2, 3, 4, 8])
  else:
    D = wpick(rng, [(2, 3), (3, 3), (4, 2), (5, 2), (6, 1), (7, 2), (8, 1),
                    (9, 1), (11, 1), (13, 1)])
    if idx % 3 == 0:
      D = 2 + (idx // 3) % 12     # every D in 2..13 is visited by index
    D2 = 1
  T = rng.randrange(5, 11) if tier == 'quick' else rng.randrange(6, 21)
  faulted = rng.random() < 0.35 and rep != 'fd'
  ops = common.gen_history(rng, cfg, len(tree), T, 0.15 if faulted else 0.0,
                           fault_kinds=['nan', 'pinf', 'huge', 'zero'],
                           restores=True, rejit=False, scale_jumps=0.25)
  if faulted:
    # a fault hits one leaf only, so that healthy leaves remain to compare
    for op in ops:
      if op.get('fault') and len(tree) > 1:
        op['fault']['leaf'] = rng.randrange(len(tree))
  # RESCALE mid-run (vmap only)
  if mode == 'vmap' and rng.random() < 0.4:
    pos = rng.randrange(1, len(ops))
    ops.insert(pos, {'op': 'CHECKPOINT', 'sync': True})
    ops.insert(pos + 1, {'op': 'RESCALE', 'D': pick(rng, [1, 2, 3, 5, 7]),
                         'which': -1})
  pm = mode == 'vmap' and D <= 8 and rng.random() < 0.2
  return {'system': 'ds', 'class': rep + ('_faulted' if faulted else ''),
          'rep': rep, 'x64': x64, 'mode': mode, 'D': D,
          'D2': D2, 'mesh': 1, 'config': cfg, 'tree': tree,
          'lr': ds_gen.gen_lr(rng), 'param_seed': rng.randrange(1000),
          'ops': ops, 'pmap_check': pm, 'n_stats': N}


def _mesh_for(n_stats, D):
  tot = n_stats + (-n_stats % D) if n_stats else D
  for m in (8, 4, 2, 1):
    if tot % m == 0:
      return m
  return 1


def run(plan):
  import numpy as np
  from sim import ds_oracles as orc
  from sim.ctx import Ctx
  from sim.ds_view import View
  from sim.ds_world import DSWorld, named_leaves, sha_leaves, category
  from sim.grads import make_grads, make_params
  from sim.refmodel import ds as ref
  ctx = Ctx(plan, 'C13')
  shapes = [tuple(s) for s in plan['tree']]
  params = make_params(shapes, plan.get('param_seed', 0))
  mode = plan['mode']
  rep = plan.get('rep', plan.get('class', mode))
  D, D2 = int(plan['D']), int(plan.get('D2', 1))
  poisoned = set()
  N = plan.get('n_stats', 0)
  if mode == 'sharded':
    pa = dict(plan, mesh=_mesh_for(N, D))
    pb = dict(plan, mesh=_mesh_for(N, D2))
    A = DSWorld(pa, D=D)
    B = DSWorld(pb, D=D2)
    ctx.probe('sharded_declared_counts')
  else:
    A = DSWorld(plan, D=D)
    B = DSWorld(plan, D=1)
  P = None
  if plan.get('pmap_check') and mode == 'vmap':
    P = DSWorld(plan, D=D, mode='pmap')
    ctx.probe('pmap_crosscheck')
  va, vb = View(A.cfg, A.shapes, A.mode), View(B.cfg, B.shapes, B.mode)
  sa, sb = A.init(params), B.init(params)
  sp = P.init(params) if P else None
  if rep == 'quant':
    ctx.probe('quantized_replicas')
  if rep == 'lowrank':
    ctx.probe('compressed_replicas')
  if rep == 'fd':
    ctx.probe('fd_replicas')
  durable = {}
  rescaled = 0
  x64 = bool(plan.get('x64', True))
  uc = 2.0 ** -53 if x64 else 2.0 ** -24
  cfg = A.cfg
  for idx, op in enumerate(plan['ops']):
    ctx.op_index = idx
    kind = op['op']
    ctx.saw_op(kind)
    if kind == 'STEP':
      grads, pnow = make_grads(shapes, op)
      poisoned |= pnow
      if op.get('fault'):
        ctx.faults[op['fault']['kind']] += 1
        ctx.probe('fault_injected')
      pa_, pb_ = named_leaves(sa), named_leaves(sb)
      t = va.clock(pa_)
      ua, sa = A.update(grads, sa, params)
      ub, sb = B.update(grads, sb, params)
      na, nb = named_leaves(sa), named_leaves(sb)
      upa, upb = A.updates_np(ua), B.updates_np(ub)
      Dn = A.D
      if Dn > 8:
        ctx.probe('D_gt_8')
      if N % max(Dn, 1):
        ctx.probe('N_mod_D_nonzero')
      # (a) every replica holds byte-identical updates and state
      if A.mode in ('vmap', 'pmap'):
        for name, arrs in (('update', {str(i): x for i, x in enumerate(upa)}),
                           ('state', na)):
          for k, v in arrs.items():
            ok = all(_same_bytes(v[r], v[0], np) for r in range(1, v.shape[0]))
            ctx.ev('replica_equal', 'ok' if ok else 'violation')
            if not ok:
              ctx.violate('replica_equal', rep, 'replicas_differ_' + name,
                          tick=t, leaf=k, D=Dn)
        upa0 = [x[0] for x in upa]
        upb0 = [x[0] for x in upb]
      else:
        upa0, upb0 = upa, upb
      # (b) agreement with the single-device twin
      _compare_worlds(ctx, rep, t, Dn, va, vb, na, nb, upa0, upb0, cfg, uc,
                      A, grads, params, pa_, np, ref, orc, category,
                      poisoned=poisoned)
      if P is not None:
        up_, sp = P.update(grads, sp, params)
        npm = named_leaves(sp)
        upp = [x[0] for x in P.updates_np(up_)]
        vp = View(P.cfg, P.shapes, P.mode)
        _compare_worlds(ctx, rep + '_pmap', t, Dn, va, vp, na, npm, upa0, upp,
                        cfg, uc, A, grads, params, pa_, np, ref, orc, category,
                        poisoned=poisoned)
        for k, v in npm.items():
          if not all(_same_bytes(v[r], v[0], np)
                     for r in range(1, v.shape[0])):
            ctx.violate('replica_equal', rep + '_pmap', 'replicas_differ_state',
                        tick=t, leaf=k, D=Dn)
      ctx.ticks += 1
      ctx.max_clock = max(ctx.max_clock, t + 1)
      ctx.log.add(op='STEP', t=t, a=sha_leaves(na), b=sha_leaves(nb))
      if Dn > 1 or mode == 'sharded':
        ctx.state(rep, Dn, N % max(Dn, 1), N, rescaled)
    elif kind == 'CHECKPOINT':
      t = va.clock(named_leaves(sa))
      durable[t] = (A.to_bytes(sa), B.to_bytes(sb), A.D,
                    P.to_bytes(sp) if P else None, set(poisoned),
                    set(ctx.__dict__.get('_c13_taint', ())))
    elif kind in ('CRASH_RESTORE', 'RESCALE'):
      if not durable or mode == 'sharded' and kind == 'RESCALE':
        continue
      keys = sorted(durable)
      k = keys[int(op.get('which', -1)) % len(keys)]
      da, db, Dold, dp, pz, tz = durable[k]
      poisoned = set(pz)
      ctx.__dict__['_c13_taint'] = set(tz)
      A0 = DSWorld(plan, D=Dold) if mode != 'sharded' else DSWorld(
          dict(plan, mesh=_mesh_for(N, D)), D=D)
      st0 = A0.from_bytes(A0.init(params), da)
      # checkpoints are only taken on healthy states in this property
      if kind == 'RESCALE':
        A = DSWorld(plan, D=int(op['D']))
        sa = A.replicate(A0.first_replica(st0))
        rescaled = 1
        ctx.probe('rescale')
        if P is not None:
          P = None  # pmap twin is not rescaled
      else:
        A, sa = A0, st0
        if P is not None and dp is not None:
          P = DSWorld(plan, D=Dold, mode='pmap')
          sp = P.from_bytes(P.init(params), dp)
      B = DSWorld(plan, D=1) if mode != 'sharded' else DSWorld(
          dict(plan, mesh=_mesh_for(N, D2)), D=D2)
      sb = B.from_bytes(B.init(params), db)
      va, vb = View(A.cfg, A.shapes, A.mode), View(B.cfg, B.shapes, B.mode)
      ctx.log.add(op=kind, at=k, D=A.D)
  return ctx.result()


def _same_bytes(a, b, np):
  if a.dtype.kind == 'f' and (np.isnan(a).any() or np.isnan(b).any()):
    return np.array_equal(a, b, equal_nan=True)
  return a.tobytes() == b.tobytes()


def _compare_worlds(ctx, rep, t, D, va, vb, na, nb, upa, upb, cfg, uc, A,
                    grads, params, prev_a, np, ref, orc, category,
                    poisoned=()):
  u32 = 2.0 ** -24
  thr = float(cfg.get('inverse_failure_threshold', 0.1))
  for i, leaf in enumerate(va.layout['leaves']):
    if i in poisoned:
      # a leaf the plan fed non-finite / out-of-range values: its numbers are
      # not compared (healthy leaves next to it are)
      ctx.ev('d_invariant', 'muted')
      continue
    # statistics and first-order state: same arithmetic on every replica count
    ma, mb = va.model_state(na, i), vb.model_state(nb, i)
    def first_order(names):
      for name in names:
        x, y = ma[name], mb[name]
        if x is None or np.ndim(x) == 0 and name == 'diag':
          continue
        # int8 momenta: the two worlds may round to neighbouring buckets
        qtol = 1.5 / 127 if (cfg.get('best_effort_memory_usage_reduction') and
                             name in ('mom', 'dmom') and
                             len(leaf['shape']) > 1) else 0.0
        _close(ctx, 'd_invariant', rep, t, D, i, name, x, y, 2e-3 + qtol, np)
    first_order(('diag',))
    amp_bad = False
    for j, (bi, ax, d) in enumerate(leaf['stats']):
      Sa, Sb = ma['stats'][j], mb['stats'][j]
      _close(ctx, 'd_invariant', rep, t, D, i, f'statistics[{j}]', Sa, Sb,
             1e-4, np)
      Xa, Xb = va.precond(na, i, j), vb.precond(nb, i, j)
      ea = orc._err(va, na, i, j)
      eb = orc._err(vb, nb, i, j)
      if ea is not None and eb is not None:
        acc_a = bool(np.isfinite(ea) and ea < thr)
        acc_b = bool(np.isfinite(eb) and eb < thr)
        near = (np.isfinite(ea) and abs(ea - thr) < 1e-3 * max(thr, 1e-30)) or \
            (np.isfinite(eb) and abs(eb - thr) < 1e-3 * max(thr, 1e-30))
        if acc_a != acc_b and not near:
          pt, dc = ref.precond_tick(cfg, A.lr_spec, t)
          if pt and not dc:
            ctx.violate('d_invariant', rep, 'gate_decision_differs', tick=t,
                        leaf=i, stat=j, D=D, err_D=repr(ea), err_1=repr(eb))
            ctx.ev('gate_equal', 'violation')
            continue
        ctx.ev('gate_equal')
      # roots: tolerance grows with the conditioning of the statistic
      if cfg.get('frequent_directions') and Xa.shape[0] != Xa.shape[1]:
        # the statistics slot holds the gradient factor; compare the dense
        # matrices the two packed sketches denote
        da = ref.dense_from_packed(Xa, cfg['compression_rank'])
        db = ref.dense_from_packed(Xb, cfg['compression_rank'])
        if (da is None) != (db is None):
          ctx.violate('d_invariant', rep, 'packed_flag_differs', tick=t, leaf=i,
                      stat=j, D=D)
          ctx.ev('d_invariant_root', 'violation')
        elif da is not None:
          sc_ = float(np.max(np.abs(db)))
          df_ = float(np.max(np.abs(da - db)))
          okf = df_ <= 2e-3 * max(sc_, 1e-300)
          ctx.ev('d_invariant_root', 'ok' if okf else 'violation',
                 df_ / (2e-3 * max(sc_, 1e-300)))
          if not okf:
            ctx.violate('d_invariant', rep, 'preconditioner_differs', tick=t,
                        leaf=i, stat=j, D=D, diff=df_, scale=sc_,
                        N_mod_D=va.n_stats % max(D, 1))
        continue
      if not (np.all(np.isfinite(Sa)) and np.all(np.isfinite(Xb))):
        ctx.ev('d_invariant_root', 'vacuous')
        amp_bad = True
        continue
      # The tolerance belongs to the statistic the stored root was computed
      # from. A root is only replaced on refresh ticks, so while both worlds'
      # roots are byte-identical to the last comparison the tolerance (or the
      # vacuous verdict) of that comparison is reused: the statistic of a later
      # tick may be far better conditioned than the one behind the root.
      mem = ctx.__dict__.setdefault('_c13_rootmem', {})
      mkey = (rep, i, j)
      sig = (np.asarray(Xa).tobytes(), np.asarray(Xb).tobytes())
      if (mkey, sig) in mem:
        # (keyed by the bytes, so that a restored checkpoint finds the verdict
        # of the tick its roots were computed at)
        rel, gap_bad = mem[(mkey, sig)]
        ctx.probe('root_tolerance_reused')
      else:
        rel, gap_bad = 0.0, False
        for S_ in (Sa,):
          if not np.all(np.isfinite(S_)):
            rel = float('inf')
            continue
          w = np.linalg.eigvalsh(0.5 * (S_ + S_.T)) if S_.size else np.ones(1)
          lo = max(float(w[0]), 0.0) + float(cfg.get('matrix_epsilon', 1e-6)) * (
              max(float(w[-1]), 1e-6) if cfg.get('relative_matrix_epsilon', True)
              else 1.0) * 1e-6
          kappa = float(w[-1]) / lo if lo > 0 else float('inf')
          r_ = 16 * u32 + 256 * uc * kappa
          # the two worlds' statistics evolve separately (rounding of different
          # compiled programs, int16 re-quantization): a relative difference in
          # S is amplified by the condition number in the root
          scS = float(np.max(np.abs(Sb))) if Sb.size else 0.0
          relS = float(np.max(np.abs(Sa - Sb))) / scS if scS > 0 else 0.0
          r_ += 4.0 * kappa * max(relS, u32)
          if cfg.get('best_effort_memory_usage_reduction'):
            r_ += 4.0 / 32767
          rel = max(rel, r_)
          if cfg.get('compression_rank') and Xa.shape[0] != Xa.shape[1]:
            # the retained eigen-directions are only defined up to the spectral
            # gap at the cut: without a gap two compiled programs may
            # legitimately pick different vectors of a degenerate eigenspace
            rr = int(cfg['compression_rank'])
            srt = w[::-1] if rr > 0 else w
            kk = abs(rr)
            if kk < len(srt) and abs(srt[kk - 1] - srt[kk]) < 1e-3 * max(
                float(w[-1]), 1e-30):
              gap_bad = True
        mem[(mkey, sig)] = (rel, gap_bad)
      if not np.isfinite(rel) or rel > 1e-2 or gap_bad:
        ctx.ev('d_invariant_root', 'vacuous')
        amp_bad = True
        continue
      if Xa.shape != Xb.shape:
        ctx.violate('d_invariant', rep, 'root_shape', tick=t, leaf=i, stat=j)
        continue
      if cfg.get('compression_rank') and Xa.shape[0] != Xa.shape[1]:
        da = ref.dense_from_packed(Xa, cfg['compression_rank'])
        db = ref.dense_from_packed(Xb, cfg['compression_rank'])
        if da is None or db is None:
          ctx.ev('d_invariant_root', 'ok' if (da is None) == (db is None)
                 else 'violation')
          if (da is None) != (db is None):
            ctx.violate('d_invariant', rep, 'packed_flag_differs', tick=t,
                        leaf=i, stat=j, D=D)
          continue
        Xa, Xb = da, db
        rel = max(rel, 1e-4)
      sc = float(np.max(np.abs(Xb))) if Xb.size else 0.0
      diff = float(np.max(np.abs(Xa - Xb))) if Xa.size else 0.0
      if diff > rel * max(sc, 1e-300):
        ctx.violate('d_invariant', rep, 'preconditioner_differs', tick=t,
                    leaf=i, stat=j, D=D, diff=diff, scale=sc, rel_tol=rel,
                    N_mod_D=va.n_stats % max(D, 1))
        ctx.ev('d_invariant_root', 'violation')
      else:
        ctx.ev('d_invariant_root', 'ok', diff / (rel * max(sc, 1e-300)))
    # momenta and updates pass through the roots: where a root in use is too
    # ill-conditioned to be compared (its statistic was rank deficient, say),
    # the two worlds' preconditioned gradients legitimately differ by the same
    # amplification, and the momentum carries that difference forward
    taint = ctx.__dict__.setdefault('_c13_taint', set())
    if amp_bad:
      taint.add((rep, i))
    if (rep, i) in taint:
      ctx.ev('d_invariant', 'vacuous')
      ctx.ev('d_invariant_update', 'vacuous')
      ctx.probe('ill_conditioned_root_mutes_momentum')
      continue
    first_order(('mom', 'dmom'))
    x, y = np.asarray(upa[i], np.float64), np.asarray(upb[i], np.float64)
    _close(ctx, 'd_invariant_update', rep, t, D, i, 'update', x, y,
           5e-3 + (1.5 / 127 if cfg.get('best_effort_memory_usage_reduction')
                   and len(leaf['shape']) > 1 else 0.0), np)


def _close(ctx, oracle, rep, t, D, i, what, x, y, rel, np):
  x, y = np.asarray(x, np.float64), np.asarray(y, np.float64)
  if x.shape != y.shape:
    ctx.violate(oracle, rep, 'shape_differs', tick=t, leaf=i, what=what, D=D)
    ctx.ev(oracle, 'violation')
    return
  if x.size == 0:
    return
  if not (np.all(np.isfinite(x)) and np.all(np.isfinite(y))):
    same = np.array_equal(np.isfinite(x), np.isfinite(y))
    ctx.ev(oracle, 'vacuous' if same else 'violation')
    if not same:
      ctx.violate(oracle, rep, 'finiteness_differs', tick=t, leaf=i, what=what,
                  D=D)
    return
  sc = max(float(np.max(np.abs(y))), float(np.max(np.abs(x))))
  diff = float(np.max(np.abs(x - y)))
  if diff > rel * sc + 1e-30:
    ctx.violate(oracle, rep, what.split('[')[0] + '_differs', tick=t, leaf=i,
                what=what, D=D, diff=diff, scale=sc)
    ctx.ev(oracle, 'violation')
  else:
    ctx.ev(oracle, 'ok', diff / (rel * sc + 1e-30))


def simplifications(plan):
  import copy
  from sim.harness import generic_simplifications
  for c in generic_simplifications(plan):
    from sim.refmodel import shapes as shp2
    c['n_stats'] = shp2.tree_layout(c['tree'], c.get('config', {}))['n_stats']
    yield c
  if plan.get('pmap_check'):
    c = copy.deepcopy(plan)
    c['pmap_check'] = False
    yield c
  for d in (2, 3):
    if plan.get('D', 1) > d and plan['mode'] == 'vmap':
      c = copy.deepcopy(plan)
      c['D'] = d
      yield c
