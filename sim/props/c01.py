"""C01 - inverse p-th root honest: decided in situ, on every root a simulated
optimizer installs (DESIGN 5, C01). Not a quantification over all matrices."""
from sim import ds_gen
from sim.props import common
from sim.refmodel import shapes as shp
from sim.util import derive_rng, pick, wpick

LEVEL = 'exploration'
BUDGET = {
    'quick': dict(runs=170, wall=420, timeout=600, det=4, minimise=40),
    'thorough': dict(runs=2600, wall=3000, timeout=600, det=16, minimise=200),
}
RULE = ('In situ only: each run drives Distributed Shampoo (jit / simulated '
        'replicas / sharded with padded stacks; Newton or eigh; exponents 1-8 '
        'through tensor rank and exponent_override; ridge 0..1e-1 relative or '
        'absolute; x64 on/off) through a faulted history; every root the gate '
        'accepts at a refresh tick is checked with the residual oracle '
        '(existential in the ridge) against the statistics stored at that '
        'tick, plus lambda-hat <= lambda_max and exact zero padding. Distinct '
        'non-trivial = distinct (mode+method, refresh?, health, rejected?, '
        'accepted?) abstract states; non-vacuous residual evaluations are '
        'reported separately.')
COMPONENTS = common.DS_COMPONENTS
ASSUMPTIONS = [
    'restricted reach: only matrices the optimizer produces from simulated '
    'gradient histories (n<=16 after blocking, float32 statistics); direct '
    'calls with float64 inputs are not decided; LOBPCG deflation only with '
    'k in {1,2} on 12..16-dimensional statistics',
    'Newton: the ridge is reconstructed from the reported max_eigen_value and '
    'total_retries; eigh: minimised over the admissible ridge interval',
    'vacuous (not counted as pass) when the regularised input is singular, '
    'kappa>1e8 or the rounding slack exceeds 0.05']
EXPECTED_PROBES = ['root_checked_nontrivial', 'root_retry_gt1',
                   'padded_root_checked', 'root64_called']


def generate(seed, idx, tier):
  rng = derive_rng(seed, 'C01', idx)
  mode, D, mesh, quant = common.choose_mode(
      rng, [('jit', 5), ('vmap', 1), ('sharded', 3)])
  x64 = rng.random() < 0.8
  cfg = ds_gen.gen_config(rng, emph={
      'eps': [(1e-1, 3), (1e-2, 2), (1e-3, 3), (1e-6, 3), (1e-12, 2), (0.0, 1)],
      'thr': [(0.1, 5), (1e30, 1)], 'eigh': 0.5})
  cfg['exponent_override'] = wpick(rng, [(0, 4), (1, 1), (2, 1), (3, 1), (4, 1),
                                         (5, 1), (6, 1), (7, 1), (8, 1)])
  cfg['preconditioning_compute_steps'] = pick(rng, [1, 1, 2])
  cfg = common.constrain(cfg, mode, quant, x64)
  lob = rng.random() < 0.12
  tree = ds_gen.fix_tree_for_config(rng, ds_gen.gen_tree(rng), cfg)
  if lob:
    # LOBPCG-deflated Newton: needs n > 5k for every (padded) statistic
    cfg['lobpcg_topk_precondition'] = pick(rng, [1, 1, 2])
    cfg['eigh'] = False
    cfg['block_size'] = 16
    cfg.pop('merge_small_dims_block_size', None)
    cfg['best_effort_shape_interpretation'] = True
    cfg['precondtioner_type'] = 1
    cfg.pop('skip_preconditioning_dim_size_gt', None)
    tree = [[pick(rng, [4, 6, 8]), pick(rng, [3, 4, 5])]
            for _ in range(pick(rng, [1, 2]))]
  # scale class: statistics far from unit scale on matrices that are not tiny
  # (lambda_max ~ 1e-18..1e+16, n = 6..12): this is where the iterative
  # routines leave their loops early or late (the power iteration's absolute
  # tolerance, Newton's error-ratio test) and where absolute constants show
  scale_class = None
  if not lob and rng.random() < 0.2:
    scale_class = 10.0 ** (-rng.randrange(3, 10) if rng.random() < 0.6
                           else rng.randrange(3, 9))
    cfg['block_size'] = pick(rng, [8, 16])
    cfg.pop('merge_small_dims_block_size', None)
    cfg.pop('skip_preconditioning_dim_size_gt', None)
    cfg['best_effort_shape_interpretation'] = True
    cfg['precondtioner_type'] = 1
    cfg['eigh'] = rng.random() < 0.3
    cfg['relative_matrix_epsilon'] = rng.random() < 0.85
    cfg['matrix_epsilon'] = pick(rng, [1e-6, 1e-6, 1e-8, 1e-12])
    cfg['exponent_override'] = 0
    tree = [[rng.randrange(6, 13), rng.randrange(5, 11)]
            for _ in range(pick(rng, [1, 1, 2]))]
  if mode == 'sharded':
    n = shp.tree_layout(tree, cfg)['n_stats']
    if not common.sharded_mesh_ok(n, D, mesh):
      mesh = 1
  faulted = rng.random() < 0.5
  T = rng.randrange(6, 16) if tier == 'quick' else rng.randrange(8, 31)
  # late-training regime: the statistics start at matrix_epsilon * I, which
  # keeps them non-singular for as long as it has not decayed away; with
  # beta2 = 0.5 and > 20 ticks (0.5^20 = 1e-6) low-rank gradient histories
  # give genuinely rank-deficient statistics, as in any real run after
  # 1/(1-beta2) steps
  late = not lob and rng.random() < 0.15
  if late:
    cfg['beta2'] = 0.5
    cfg['statistics_compute_steps'] = 1
    cfg['eigh'] = rng.random() < 0.6
    T = rng.randrange(20, 30)
    faulted = False
  ops = common.gen_history(rng, cfg, len(tree), T,
                           0.0 if not faulted else 1.0 / rng.randrange(4, 12),
                           scale_jumps=0.4, jumps=0.0)
  if late:
    for op in ops:
      if op['op'] == 'STEP':
        op['kind'] = wpick(rng, [('lowrank', 5), ('rows', 3), ('normal', 1)])
        if op['kind'] == 'lowrank':
          op['rank'] = 1
        op.pop('scale', None)
        op.pop('leaf_scales', None)
  if scale_class is not None:
    for op in ops:
      if op['op'] == 'STEP':
        op['scale'] = float(op.get('scale', 1.0)) * scale_class
  return {'system': 'ds', 'class': f"{mode}_{'lobpcg' if lob else 'eigh' if cfg['eigh'] else 'newton'}"
          f"{'_x64' if x64 else '_f32'}{'_scaled' if scale_class else ''}{'_late' if late else ''}", 'x64': x64, 'mode': mode, 'D': D,
          'mesh': mesh, 'config': cfg, 'tree': tree, 'lr': ds_gen.gen_lr(rng),
          'param_seed': rng.randrange(1000), 'ops': ops,
          'oracles': ['roots', 'gate', 'roots64']}


def run(plan):
  from sim import ds_run
  return ds_run.run(plan, 'C01')


def simplifications(plan):
  from sim.harness import generic_simplifications
  return generic_simplifications(plan)
