"""Fresh-interpreter resume for C14 (run as a script, never imported)."""
import json
import os
import sys

HERE = os.path.dirname(os.path.dirname(os.path.dirname(os.path.abspath(__file__))))
sys.path.insert(0, HERE)


def main():
  msg = json.loads(sys.stdin.read())
  plan = msg['plan']
  real_out = os.fdopen(os.dup(1), 'w')
  os.dup2(2, 1)
  from sim import jaxenv
  jaxenv.setup(plan.get('x64', True))
  import numpy as np
  from sim.props import c14
  try:
    base = c14._params(plan)
    params = [np.frombuffer(bytes.fromhex(p), b.dtype).reshape(b.shape).copy()
              for p, b in zip(msg['params'], base)]
    ok, hashes = c14.run_suffix(plan, msg['k'], bytes.fromhex(msg['blob']),
                                params)
    res = {'layout_ok': ok, 'hashes': hashes}
  except Exception as e:  # pylint: disable=broad-except
    import traceback
    res = {'error': traceback.format_exc()}
  real_out.write('RESULT ' + json.dumps(res) + '\n')
  real_out.flush()


if __name__ == '__main__':
  main()
