"""C04, Tearfree part."""
from sim import ds_gen, tf_gen
from sim.props import common
from sim.util import pick


def generate(rng, tier):
  cfg = tf_gen.gen_config(rng, emph={'p': [(1, 2), (2, 2), (3, 2), (4, 1), (6, 1)],
                                     's': [(1, 2), (2, 2), (3, 1), (5, 1)]},
                          variants=True)
  x64 = cfg['second_order'] == 'shampoo' and rng.random() < 0.7
  tree = tf_gen.gen_tree(rng, cfg)
  T = rng.randrange(8, 22) if tier == 'quick' else rng.randrange(10, 41)
  sched = {'preconditioning_compute_steps':
           cfg['shampoo']['update_preconditioners_freq']
           if cfg['second_order'] == 'shampoo' else cfg['sketchy']['update_freq'],
           'statistics_compute_steps': cfg['shampoo']['update_statistics_freq'],
           'start_preconditioning_step':
           cfg['graft']['start_preconditioning_step']}
  ops = common.gen_history(rng, sched, len(tree), T, 0.0, jumps=0.12,
                           scale_jumps=0.3)
  return {'system': 'tearfree', 'class': 'tearfree_' + cfg['second_order'],
          'x64': x64, 'mode': 'jit', 'config': cfg, 'tree': tree,
          'lr': ds_gen.gen_lr(rng), 'param_seed': rng.randrange(1000),
          'ops': ops, 'oracles': ['cadence', 'warmup_modelled', 'refine_roots']}


def run(plan):
  from sim import tf_run

  def modelled(rec):
    sk = rec['world'].cfg.get('sketchy', {})
    return not (rec['view'].so == 'sketchy' and (
        sk.get('ekfac_svd') or sk.get('linear_approx_tail')))

  def refine_roots(ctx, rec):
    # cadence contract: on a preconditioner tick the roots reflect the
    # statistics current at that step (full refinement is C15's job)
    if not modelled(rec):
      # variants the float64 model does not describe: cadence (bitwise) only
      ctx.probe('sketchy_variant_cadence_only')
      return
    tf_run.refine(ctx, rec)

  def warmup_modelled(ctx, rec):
    if modelled(rec):
      tf_run.warmup(ctx, rec)
  tf_run.register('refine_roots', refine_roots)
  tf_run.register('warmup_modelled', warmup_modelled)
  return tf_run.run(plan, 'C04')
