"""Run context: event log, violations, probes, coverage accounting."""
import collections

from sim.util import Log


class Ctx:

  def __init__(self, plan, prop):
    self.plan = plan
    self.prop = prop
    self.log = Log({'property': prop, 'seed': plan.get('seed'),
                    'run': plan.get('run')})
    self.violations = []
    self.probes = collections.Counter()
    self.faults = collections.Counter()
    self.ops = collections.Counter()
    self.evals = {}
    self.abstract = set()
    self.ticks = 0
    self.max_clock = 0
    self.op_index = -1
    self.grams = set()
    self._last_ops = []

  def violate(self, oracle, mode, predicate, **detail):
    key = f'{self.prop}/{oracle}/{mode}/{predicate}'
    v = {'key': key, 'oracle': oracle, 'op_index': self.op_index}
    v.update(detail)
    self.violations.append(v)
    self.log.add(violation=key, op=self.op_index)

  def probe(self, name, n=1):
    self.probes[name] += n

  def ev(self, oracle, status='ok', ratio=None):
    """status: ok | vacuous | muted | violation."""
    e = self.evals.setdefault(
        oracle, {'n': 0, 'ok': 0, 'vacuous': 0, 'muted': 0, 'violation': 0,
                 'max_ratio': 0.0})
    e['n'] += 1
    e[status] += 1
    if ratio is not None and ratio == ratio and ratio > e['max_ratio'] \
        and status == 'ok':
      e['max_ratio'] = float(ratio)

  def saw_op(self, kind):
    self.ops[kind] += 1
    self._last_ops.append(kind)
    if len(self._last_ops) >= 3:
      self.grams.add('>'.join(self._last_ops[-3:]))

  def state(self, *parts):
    self.abstract.add('|'.join(str(p) for p in parts))

  def result(self):
    return {
        'digest': self.log.digest(),
        'violations': self.violations,
        'probes': dict(self.probes),
        'faults': dict(self.faults),
        'ops': dict(self.ops),
        'evals': self.evals,
        'abstract': sorted(self.abstract),
        'grams': sorted(self.grams),
        'ticks': self.ticks,
        'max_clock': self.max_clock,
        'log_len': len(self.log.lines),
    }
