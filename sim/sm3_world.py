"""SM3 under the simulator."""
import numpy as np

import jax
import jax.numpy as jnp
from flax import serialization

from precondition import sm3 as sm3m
from sim.ds_world import make_lr, tree_of, untree

DEFAULTS = dict(beta1=0.9, beta2=0.999, diagonal_epsilon=1e-10,
                weight_decay=0.0, normalize_grads=False)


class SM3World:

  def __init__(self, plan):
    self.plan = plan
    self.cfg = dict(DEFAULTS)
    self.cfg.update(plan.get('config', {}))
    self.lr_spec = plan.get('lr', {'kind': 'const', 'v': 0.1})
    self.mode = plan.get('mode', 'jit')
    self.shapes = [tuple(s) for s in plan['tree']]
    self.n = len(self.shapes)
    self.incarnate()

  def incarnate(self):
    self.opt = sm3m.sm3(make_lr(self.lr_spec), **self.cfg)
    self._upd = self.opt.update if self.mode == 'eager' else jax.jit(
        self.opt.update)

  def init(self, params):
    return self.opt.init(tree_of([jnp.asarray(p) for p in params]))

  def update(self, grads, state, params):
    return self._upd(tree_of([jnp.asarray(x) for x in grads]), state,
                     tree_of([jnp.asarray(x) for x in params]))

  def updates_np(self, u):
    return [np.asarray(x) for x in untree(u, self.n)]

  @staticmethod
  def to_bytes(state):
    return serialization.to_bytes(state)

  def from_bytes(self, template, data):
    # a trainer places the restored checkpoint on device; numpy leaves fed to
    # an eager update would dispatch to numpy arithmetic (1-ulp differences)
    return jax.tree.map(jnp.asarray, serialization.from_bytes(template, data))

  def set_clock(self, state, t):
    return state._replace(count=jnp.full_like(state.count, t))
