"""Check driver: generate plans from one seed, run them on the worker pool,
classify outcomes, minimise and write replay files, write evidence.

Exit codes: 0 held (KNOWN-FINDING lines allowed); 1 with
`VIOLATION property=<id> replay=<path>`; 2 harness error / timeout (never 0,
never a VIOLATION line).
"""
import collections
import copy
import glob
import importlib
import json
import os
import sys
import time

from sim import pool
from sim.util import canon, sha

HERE = os.path.dirname(os.path.dirname(os.path.abspath(__file__)))
OUT = os.path.join(HERE, 'out')
KNOWN = os.path.join(HERE, 'known_findings.json')


def load_known():
  if not os.path.exists(KNOWN):
    return {}, []
  with open(KNOWN) as f:
    d = json.load(f)
  return ({(e['property'], e['key']): e for e in d.get('findings', [])},
          d.get('fixed', []))


def prop_module(prop):
  return importlib.import_module('sim.props.' + prop.lower())


def corpus_plans(prop):
  out = []
  for p in sorted(glob.glob(os.path.join(HERE, 'corpus', prop, '*.json'))):
    with open(p) as f:
      d = json.load(f)
    plan = d['plan'] if 'plan' in d else d
    plan = dict(plan)
    plan['corpus'] = os.path.basename(p)
    out.append(plan)
  return out


def crash_violation(prop, rep):
  return {'key': f"{prop}/crash/{rep.get('exc')}/{rep.get('where') or 'unknown'}",
          'oracle': 'crash', 'exc': rep.get('exc'), 'msg': rep.get('msg'),
          'where': rep.get('where')}


def outcome(prop, rep):
  """-> (status, violations) status in ok|violation|harness|not_run."""
  if rep is None:
    return 'harness', []
  if rep.get('ok'):
    v = rep['result'].get('violations', [])
    return ('violation' if v else 'ok'), v
  if rep.get('kind') == 'system':
    return 'violation', [crash_violation(prop, rep)]
  if rep.get('kind') == 'not_run':
    return 'not_run', []
  return 'harness', []


# ------------------------------------------------------------------ minimiser
def _keys_of(prop, rep):
  st, v = outcome(prop, rep)
  return {x['key'] for x in v} if st == 'violation' else set()


def minimise(prop, plan, key, budget, n_workers, timeout):
  """ddmin over ops, then op / config / tree simplification; a candidate is
  kept iff it still yields the same violation key."""
  mod = prop_module(prop)
  spent = [0]

  def test_many(cands):
    cands = cands[:max(0, budget - spent[0])]
    if not cands:
      return None
    spent[0] += len(cands)
    jobs = [{'id': i, 'prop': prop, 'plan': c} for i, c in enumerate(cands)]
    reps = pool.run_jobs(jobs, n_workers=n_workers, timeout=timeout)
    for c, r in zip(cands, reps):
      if key in _keys_of(prop, r):
        return c
    return None

  cur = copy.deepcopy(plan)
  cur.pop('corpus', None)
  # 1. ddmin over the op list
  opsk = getattr(mod, 'OPS_KEY', 'ops')
  if opsk in cur:
    n = 2
    while len(cur[opsk]) >= 2 and spent[0] < budget:
      ops = cur[opsk]
      size = max(1, len(ops) // n)
      chunks = [ops[i:i + size] for i in range(0, len(ops), size)]
      cands = []
      for ci in range(len(chunks)):
        rest = [o for cj, ch in enumerate(chunks) if cj != ci for o in ch]
        if rest:
          c = copy.deepcopy(cur)
          c[opsk] = rest
          cands.append(c)
      got = test_many(cands)
      if got is not None:
        cur = got
        n = max(n - 1, 2)
      elif size == 1:
        break
      else:
        n = min(n * 2, len(ops))
  # 2. property-specific simplifications
  simp = getattr(mod, 'simplifications', None)
  if simp:
    progress = True
    while progress and spent[0] < budget:
      progress = False
      cands = list(simp(cur))
      # test in small batches, restart after the first success
      for i in range(0, len(cands), max(1, n_workers)):
        got = test_many(cands[i:i + max(1, n_workers)])
        if got is not None:
          cur = got
          progress = True
          break
  return cur, spent[0]


def history_prefix(prop, plans, prefix_idx, plan, key, n_workers, timeout,
                   budget=24):
  """The violation of `plan` does not reproduce alone. Find a (small) list of
  the plans that ran before it in the same interpreter after which it does.
  Returns the list of prefix plans, or None if even the full prefix does not
  reproduce it."""
  job = lambda n, q_: {'id': n, 'prop': prop, 'plan': q_}

  def fails(prefixes):
    seqs = [[job(n, q_) for n, q_ in enumerate(list(pf) + [plan])]
            for pf in prefixes]
    res = pool.run_sequences(seqs, n_workers=n_workers, timeout=timeout)
    return [bool(r and r[-1] and key in _keys_of(prop, r[-1])) for r in res]

  cur = [plans[i] for i in prefix_idx]
  if not cur or not fails([cur])[0]:
    return None
  spent = 1
  # greedy delta debugging on the prefix (order preserved)
  n = 2
  while len(cur) >= 2 and spent < budget:
    size = max(1, len(cur) // n)
    chunks = [cur[i:i + size] for i in range(0, len(cur), size)]
    cands = [[q_ for cj, ch in enumerate(chunks) if cj != ci for q_ in ch]
             for ci in range(len(chunks))]
    cands = [c for c in cands if c]
    got = fails(cands)
    spent += len(cands)
    hit = [c for c, g in zip(cands, got) if g]
    if hit:
      cur = min(hit, key=len)
      n = max(n - 1, 2)
    elif size == 1:
      break
    else:
      n = min(n * 2, len(cur))
  return cur


def generic_simplifications(plan, defaults=None):
  """Candidate plans that are 'simpler' than plan."""
  ops = plan.get('ops', [])
  for i, op in enumerate(ops):
    if op.get('op') != 'STEP':
      continue
    for field in ('fault', 'leaf_scales', 'scale'):
      if op.get(field) is not None:
        c = copy.deepcopy(plan)
        c['ops'][i].pop(field)
        yield c
    if op.get('kind', 'normal') != 'normal':
      c = copy.deepcopy(plan)
      c['ops'][i]['kind'] = 'normal'
      yield c
  cfg = plan.get('config', {})
  for k in sorted(cfg):
    c = copy.deepcopy(plan)
    c['config'].pop(k)
    yield c
  tree = plan.get('tree', [])
  if len(tree) > 1:
    for i in range(len(tree)):
      c = copy.deepcopy(plan)
      c['tree'] = tree[:i] + tree[i + 1:]
      yield c
  for i, s in enumerate(tree):
    for a, d in enumerate(s):
      if d > 2:
        c = copy.deepcopy(plan)
        c['tree'][i] = list(s)
        c['tree'][i][a] = max(2, d // 2)
        yield c
  if plan.get('lr', {}).get('kind', 'const') != 'const':
    c = copy.deepcopy(plan)
    c['lr'] = {'kind': 'const', 'v': plan['lr']['v']}
    yield c


# --------------------------------------------------------------------- checks
def run_check(prop, tier, seed, n_workers=None):
  t0 = time.time()
  mod = prop_module(prop)
  n_workers = n_workers or int(os.environ.get('VERIF_JOBS', '16'))
  budget = mod.BUDGET[tier]
  n_runs = int(os.environ.get('VERIF_RUNS', budget['runs']))
  timeout = budget.get('timeout', 600)
  plans = corpus_plans(prop)
  n_corpus = len(plans)
  for i in range(n_runs):
    p = mod.generate(seed, i, tier)
    p['seed'], p['run'] = seed, i
    plans.append(p)
  jobs = [{'id': i, 'prop': prop, 'plan': p} for i, p in enumerate(plans)]
  deadline = time.monotonic() + budget.get('wall', 600)
  reps = pool.run_jobs(jobs, n_workers=n_workers, timeout=timeout,
                       deadline=deadline)
  t_main = time.time() - t0
  known, fixed = load_known()
  agg = Aggregate(prop)
  new_by_key = collections.OrderedDict()
  known_hit = collections.OrderedDict()
  harness = []
  not_run = 0
  for plan, rep in zip(plans, reps):
    st, viols = outcome(prop, rep)
    if st == 'harness':
      harness.append((plan, rep))
      continue
    if st == 'not_run':
      not_run += 1
      continue
    agg.add(plan, rep)
    for v in viols:
      kk = (prop, v['key'])
      if kk in known:
        known_hit.setdefault(v['key'], (plan, v))
      else:
        new_by_key.setdefault(v['key'], (plan, v, rep))
  # determinism spot check: same plans, other hash seed, other worker count
  det_bad = []
  if not harness and budget.get('det', 4):
    ok_idx = [i for i, r in enumerate(reps) if r and r.get('ok')][:budget.get('det', 4)]
    djobs = [jobs[i] for i in ok_idx]
    dreps = pool.run_jobs(djobs, n_workers=2, timeout=timeout,
                          hashseed=getattr(mod, 'DET_HASHSEED', '4711'))
    for i, r in zip(ok_idx, dreps):
      if not (r and r.get('ok')) or \
          r['result']['digest'] != reps[i]['result']['digest']:
        det_bad.append(i)
  t_det = time.time() - t0 - t_main
  os.makedirs(os.path.join(OUT, 'replays'), exist_ok=True)
  lines = []
  # minimise and report new violations
  rc = 0
  mini_budget = budget.get('minimise', 40)
  for n_rep, (key, (plan, v, rep)) in enumerate(new_by_key.items()):
    if n_rep >= int(os.environ.get("VERIF_MAX_REPORTS", "4")):
      break
    small, spent = plan, 0
    # does the plan fail on its own in a fresh interpreter? If not, the
    # violation depends on what the same interpreter executed before (state
    # kept by the library at module level): the earlier plans of that worker
    # become part of the schedule and of the replay file.
    alone = pool.run_jobs([{'id': 0, 'prop': prop, 'plan': plan}], n_workers=1,
                          timeout=timeout)[0]
    prefix_plans = None
    if key not in _keys_of(prop, alone) and rep.get('_prefix') and not harness:
      prefix_plans = history_prefix(prop, plans, rep['_prefix'], plan, key,
                                    n_workers, timeout)
    if prefix_plans is None and mini_budget and not harness and \
        key in _keys_of(prop, alone):
      try:
        small, spent = minimise(prop, plan, key, mini_budget, n_workers, timeout)
      except Exception as e:  # pylint: disable=broad-except
        print(f'minimiser failed: {e!r}', file=sys.stderr)
        small = plan
    # final confirmation run of the minimised plan in a fresh process
    if prefix_plans is not None:
      seq = [{'id': n, 'prop': prop, 'plan': q_} for n, q_ in
             enumerate(prefix_plans + [plan])]
      conf = pool.run_sequences([seq], n_workers=1, timeout=timeout)[0][-1] or rep
    else:
      conf = pool.run_jobs([{'id': 0, 'prop': prop, 'plan': small}],
                           n_workers=1, timeout=timeout)[0]
    if key not in _keys_of(prop, conf):
      small, conf = plan, rep
    dig = conf['result']['digest'] if conf.get('ok') else None
    name = f"{prop}-seed{seed}-{sha(canon(small) + key)[:10]}.json"
    path = os.path.join(OUT, 'replays', name)
    doc = {'property': prop, 'seed': seed, 'violation_key': key,
           'expected_digest': dig, 'detail': v,
           'minimised_from_ops': len(plan.get('ops', [])),
           'minimiser_candidates': spent, 'plan': small}
    if prefix_plans is not None:
      doc['prefix_plans'] = prefix_plans
    with open(path, 'w') as f:
      json.dump(doc, f, indent=1, sort_keys=True)
    lines.append(f'VIOLATION property={prop} replay={path}')
    lines.append(f'  key={key}')
    if prefix_plans is not None:
      lines.append(f'  depends on process history: the replay runs '
                   f'{len(prefix_plans)} earlier plan(s) of the same interpreter '
                   f'first (from {len(rep["_prefix"])})')
    lines.append(f'  detail={canon(v)[:600]}')
    lines.append(f"  ops={len(small.get('ops', []))} (from "
                 f"{len(plan.get('ops', []))}), candidates tried={spent}, "
                 f'digest={dig}')
    lines.append(f'  reproduce: {pool.PY} check.py --replay {path}')
    rc = 1
  for key, (plan, v) in known_hit.items():
    e = known[(prop, key)]
    lines.append(f"KNOWN-FINDING: property={prop} key={key} "
                 f"{e.get('what_fails', '')}")
  if harness or det_bad:
    rc = 2
    for plan, rep in harness[:5]:
      lines.append(f"HARNESS-ERROR property={prop} kind={rep.get('kind') if rep else None} "
                   f"exc={rep.get('exc') if rep else None} run={plan.get('run')} "
                   f"corpus={plan.get('corpus')}")
      if rep and rep.get('tb'):
        lines.append('  ' + rep['tb'][-1500:].replace('\n', '\n  '))
    if det_bad:
      lines.append(f'HARNESS-ERROR property={prop} nondeterministic digests '
                   f'for jobs {det_bad}')
    # a harness error never prints VIOLATION
    lines = [l for l in lines if not l.startswith('VIOLATION')]
  wall = time.time() - t0
  ev = agg.evidence(tier, seed, wall, mod, n_corpus=n_corpus, not_run=not_run,
                    n_new=len(new_by_key), known=list(known_hit),
                    harness=len(harness), det_checked=budget.get('det', 4),
                    det_bad=len(det_bad))
  if not os.environ.get('VERIF_NO_EVIDENCE'):
    os.makedirs(os.path.join(HERE, 'evidence'), exist_ok=True)
    with open(os.path.join(HERE, 'evidence', f'{prop}.json'), 'w') as f:
      json.dump(ev, f, indent=1, sort_keys=True)
  for l in lines:
    print(l)
  print(f"{prop} {tier} seed={seed}: runs={agg.n} ticks={agg.ticks} "
        f"violations(new keys)={len(new_by_key)} known={len(known_hit)} "
        f"harness={len(harness)} not_run={not_run} wall={wall:.1f}s "
        f"(main {t_main:.1f}s det {t_det:.1f}s) rc={rc}")
  if new_by_key:
    print('  new keys: ' + ', '.join(new_by_key))
  return rc


class Aggregate:

  def __init__(self, prop):
    self.prop = prop
    self.n = 0
    self.ticks = 0
    self.max_clock = 0
    self.probes = collections.Counter()
    self.faults = collections.Counter()
    self.ops = collections.Counter()
    self.evals = {}
    self.abstract = set()
    self.grams = set()
    self.samples = []
    self.crashes = collections.Counter()
    self.classes = collections.Counter()

  def add(self, plan, rep):
    self.n += 1
    if not rep.get('ok'):
      self.crashes[f"{rep.get('exc')}@{rep.get('where')}"] += 1
      return
    r = rep['result']
    self.ticks += r.get('ticks', 0)
    self.max_clock = max(self.max_clock, r.get('max_clock', 0))
    self.probes.update(r.get('probes', {}))
    self.faults.update(r.get('faults', {}))
    self.ops.update(r.get('ops', {}))
    for k, e in r.get('evals', {}).items():
      a = self.evals.setdefault(k, collections.Counter())
      for kk, vv in e.items():
        if kk == 'max_ratio':
          a[kk] = max(a.get(kk, 0.0), vv)
        else:
          a[kk] += vv
    self.abstract.update(r.get('abstract', []))
    self.grams.update(r.get('grams', []))
    self.classes[plan.get('class', plan.get('mode', plan.get('system', '?')))] += 1
    if len(self.samples) < 2 and not plan.get('corpus'):
      self.samples.append(plan)

  def evidence(self, tier, seed, wall, mod, **extra):
    expected = getattr(mod, 'EXPECTED_PROBES', [])
    zero = [p for p in expected if not self.probes.get(p)]
    cov = {
        'evaluations': max(self.n, 0),
        'distinct_nontrivial': len(self.abstract),
        'rule': getattr(mod, 'RULE', ''),
        'samples': self.samples,
        'simulated_ticks': self.ticks,
        'max_clock_reached': self.max_clock,
        'runs_per_hour': round(self.n / wall * 3600) if wall > 0 else 0,
        'ticks_per_hour': round(self.ticks / wall * 3600) if wall > 0 else 0,
        'faults_fired': dict(self.faults),
        'ops': dict(self.ops),
        'op_3grams_distinct': len(self.grams),
        'probes': dict(self.probes),
        'zero_probes': zero,
        'oracle_evaluations': {k: dict(v) for k, v in self.evals.items()},
        'run_classes': dict(self.classes),
        'system_crashes': dict(self.crashes),
        'components': getattr(mod, 'COMPONENTS', {}),
        'exhaustive': False,
    }
    cov.update(extra)
    return {
        'property_id': self.prop,
        'tier': tier,
        'seed': int(seed),
        'level': getattr(mod, 'LEVEL', 'exploration'),
        'coverage': cov,
        'assumptions': getattr(mod, 'ASSUMPTIONS', []),
        'wall_s': round(wall, 2),
        'violations': extra.get('n_new', 0),
    }


def replay(path, n_workers=1):
  with open(path) as f:
    d = json.load(f)
  prop = d['property']
  if d.get('prefix_plans'):
    # history-dependent violation: the earlier plans of the same interpreter
    # are executed first, in order, in one fresh process
    seq = [{'id': n, 'prop': prop, 'plan': q_} for n, q_ in
           enumerate(list(d['prefix_plans']) + [d['plan']])]
    rep = pool.run_sequences([seq], n_workers=1, timeout=900)[0][-1] or {
        'id': 0, 'ok': False, 'kind': 'died'}
  else:
    rep = pool.run_jobs([{'id': 0, 'prop': prop, 'plan': d['plan']}],
                        n_workers=1, timeout=900)[0]
  st, viols = outcome(prop, rep)
  keys = {v['key'] for v in viols}
  dig = rep['result']['digest'] if rep.get('ok') else None
  if st == 'harness':
    print(f'HARNESS-ERROR replay {path}: {rep}')
    return 2
  want = d.get('violation_key')
  if want in keys:
    same = (d.get('expected_digest') in (None, dig))
    print(f'VIOLATION property={prop} replay={path}')
    print(f'  key={want} reproduced; digest '
          f"{'matches' if same else 'DIFFERS'} ({dig})")
    for v in viols:
      if v['key'] == want:
        print('  detail=' + canon(v)[:800])
        break
    return 1
  print(f'replay {path}: violation {want} NOT reproduced; keys seen: '
        f'{sorted(keys)} digest={dig}')
  return 0
