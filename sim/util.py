"""Pure-python helpers shared by driver and workers (no jax import here)."""
import hashlib
import json
import random


def canon(obj):
  return json.dumps(obj, sort_keys=True, separators=(',', ':'), allow_nan=True)


def sha(s):
  if isinstance(s, str):
    s = s.encode()
  return hashlib.sha256(s).hexdigest()


def derive_int(*parts):
  h = hashlib.sha256('/'.join(str(p) for p in parts).encode()).digest()
  return int.from_bytes(h[:8], 'big')


def derive_rng(*parts):
  """One integer decides everything: every choice of a run derives from here."""
  return random.Random(derive_int(*parts))


class Log:
  """Canonical event log; logging draws nothing and reads no clock."""

  def __init__(self, header):
    self.lines = [canon(header)]

  def add(self, **kw):
    self.lines.append(canon(kw))

  def digest(self):
    return sha('\n'.join(self.lines))


def pick(rng, seq):
  return seq[rng.randrange(len(seq))]


def wpick(rng, pairs):
  """pairs: [(value, weight)]."""
  tot = sum(w for _, w in pairs)
  x = rng.random() * tot
  for v, w in pairs:
    x -= w
    if x <= 0:
      return v
  return pairs[-1][0]
