"""Read-only views of Distributed Shampoo state through the public pytree."""
import numpy as np

from sim.refmodel import shapes as shp


def _get(leaves, key, rep):
  a = leaves.get(key)
  if a is None:
    return None
  return a[rep] if rep is not None else a


def deq(leaves, base, rep, diag=False):
  """Dequantize a QuantizedValue stored under path `base` (model of the
  documented scheme: value = q * bucket (+ diag))."""
  q = _get(leaves, base + '.quantized', rep)
  if q is None:
    return None
  b = _get(leaves, base + '.bucket_size', rep)
  if b is None:
    if q.dtype.kind == 'V' or str(q.dtype) == 'bfloat16':
      return np.asarray(q, np.float32).astype(np.float64)
    return np.asarray(q, np.float64)
  v = np.asarray(q, np.float64) * np.asarray(b, np.float64)[np.newaxis, ...]
  d = _get(leaves, base + '.diagonal', rep)
  if d is not None:
    v = v + np.diag(np.asarray(d, np.float64))
  return v


class View:
  """Per-statistic and per-leaf access for every mode."""

  def __init__(self, plan_cfg, shapes, mode):
    self.cfg = plan_cfg
    self.mode = mode
    self.layout = shp.tree_layout(shapes, plan_cfg)
    self.rep = 0 if mode in ('vmap', 'pmap') else None
    self.sharded = mode == 'sharded'
    self.offsets = []
    o = 0
    for l in self.layout['leaves']:
      self.offsets.append(o)
      o += len(l['stats'])
    self.n_stats = o

  def base(self, i):
    if self.sharded:
      return f".stats.local_stats['p{i}']"
    return f".stats['p{i}']"

  def quantized_second_moment(self, leaves):
    i0 = next((i for i, l in enumerate(self.layout['leaves']) if l['stats']),
              None)
    if i0 is None or self.sharded:
      return False
    return (self.base(i0) + '.statistics[0].quantized') in leaves

  # -- keys of the leaves that make up statistic j of parameter i
  def precond_keys(self, leaves, i, j):
    if self.sharded:
      return ['.stats.global_stats.preconditioners']
    b = self.base(i) + f'.preconditioners[{j}]'
    if b in leaves:
      return [b]
    return [k for k in (b + '.quantized', b + '.diagonal', b + '.bucket_size')
            if k in leaves]

  def stat(self, leaves, i, j, rep=None):
    rep = self.rep if rep is None else rep
    if self.sharded:
      g = leaves['.stats.global_stats.statistics'][self.offsets[i] + j]
      d = self.layout['leaves'][i]['stats'][j][2]
      return np.asarray(g[:d, :d], np.float64)
    b = self.base(i) + f'.statistics[{j}]'
    if b in leaves:
      return np.asarray(_get(leaves, b, rep), np.float64)
    return deq(leaves, b, rep)

  def precond_raw(self, leaves, i, j, rep=None):
    """Bytes-comparable tuple of arrays for the stored preconditioner."""
    rep = self.rep if rep is None else rep
    if self.sharded:
      return (leaves['.stats.global_stats.preconditioners'][
          self.offsets[i] + j],)
    return tuple(_get(leaves, k, rep) for k in self.precond_keys(leaves, i, j))

  def precond(self, leaves, i, j, rep=None, padded=False):
    """Float64 value (dense, or packed when compression is on)."""
    rep = self.rep if rep is None else rep
    d = self.layout['leaves'][i]['stats'][j][2]
    if self.sharded:
      g = leaves['.stats.global_stats.preconditioners'][self.offsets[i] + j]
      if padded:
        return np.asarray(g, np.float64)
      pd = shp.precond_dim(self.cfg.get('compression_rank', 0), d)
      return np.asarray(g[:d, :pd], np.float64)
    b = self.base(i) + f'.preconditioners[{j}]'
    if b in leaves:
      return np.asarray(_get(leaves, b, rep), np.float64)
    return deq(leaves, b, rep)

  def metric(self, leaves, i, name, rep=None):
    rep = self.rep if rep is None else rep
    k = self.base(i) + f'.training_metrics.{name}'
    return _get(leaves, k, rep)

  def model_state(self, leaves, i, rep=None):
    rep = self.rep if rep is None else rep
    l = self.layout['leaves'][i]
    b = self.base(i)
    st = {}
    st['stats'] = [self.stat(leaves, i, j, rep) for j in range(len(l['stats']))]
    st['diag'] = deq(leaves, b + '.diagonal_statistics', rep)
    st['mom'] = deq(leaves, b + '.momentum', rep)
    st['dmom'] = deq(leaves, b + '.diagonal_momentum', rep)
    return st

  def roots(self, leaves, i, rep=None):
    l = self.layout['leaves'][i]
    return [self.precond(leaves, i, j, rep) for j in range(len(l['stats']))]

  def clock(self, leaves):
    c = leaves['.count']
    return int(c.reshape(-1)[0])
