"""Seeded gradient source and fault injector (numpy only).

A STEP op carries everything needed to rebuild its gradient tree:
  gseed  - seed of the PCG64 stream
  kind   - normal | lowrank | sparse | index | zero | onehot_leaf
  scale  - global multiplier (moderate range 1e-12..1e12)
  leaf_scales - optional per-leaf multipliers
  fault  - None or {kind, leaf, extent}
The poison set (leaves into which the *plan* put a non-finite or out-of-range
value) is a function of the plan only, never of the implementation's output.
"""
import numpy as np

FAULT_KINDS = ['nan', 'pinf', 'ninf', 'zero', 'huge', 'big', 'tiny',
               'subnormal']
# faults that take the leaf outside {0} u [1e-12, 1e12] or make it non-finite
POISONING = {'nan', 'pinf', 'ninf', 'huge', 'tiny', 'subnormal'}
GRAD_KINDS = ['normal', 'lowrank', 'sparse', 'index', 'zero', 'onehot_leaf',
              'rows']


def _base(rng, shape, kind, op):
  n = int(np.prod(shape)) if len(shape) else 1
  if kind == 'zero':
    return np.zeros(shape, np.float64)
  if kind == 'index':
    g = (np.arange(n, dtype=np.float64) + 1.0) / n
    sgn = np.where(np.arange(n) % 3 == 0, -1.0, 1.0)
    return (g * sgn).reshape(shape)
  if kind == 'lowrank' and len(shape) >= 2 and shape[0] > 1:
    r = int(op.get('rank', 1))
    d0 = shape[0]
    rest = n // d0
    a = rng.standard_normal((d0, r))
    b = rng.standard_normal((r, rest))
    return (a @ b).reshape(shape)
  g = rng.standard_normal(shape)
  if kind == 'sparse':
    mask = rng.random(shape) < 0.35
    g = g * mask
  if kind == 'rows' and len(shape) >= 1 and shape[0] > 1:
    # embedding-table-like: only some rows of the first axis receive a gradient
    keep = rng.random(shape[0]) < 0.4
    keep[int(rng.integers(0, shape[0]))] = True
    g = g * keep.reshape((shape[0],) + (1,) * (len(shape) - 1))
  return g


def make_grads(shapes, op):
  """Returns (list of float32 arrays, set of poisoned leaf indices)."""
  rng = np.random.Generator(np.random.PCG64(int(op['gseed'])))
  kind = op.get('kind', 'normal')
  scale = float(op.get('scale', 1.0))
  leaf_scales = op.get('leaf_scales')
  out = []
  for i, shp in enumerate(shapes):
    shp = tuple(shp)
    k = kind
    if kind == 'onehot_leaf':
      k = 'normal' if i == int(op.get('hot', 0)) % max(len(shapes), 1) else 'zero'
    g = _base(rng, shp, k, op) * scale
    if leaf_scales is not None:
      g = g * float(leaf_scales[i % len(leaf_scales)])
    out.append(np.asarray(g, np.float64))
  poisoned = set()
  f = op.get('fault')
  if f:
    tgt = range(len(out)) if f.get('leaf', -1) in (-1, None) else [
        int(f['leaf']) % len(out)]
    for i in tgt:
      g = out[i]
      fk = f['kind']
      ext = f.get('extent', 'leaf')
      if fk in ('nan', 'pinf', 'ninf'):
        v = {'nan': np.nan, 'pinf': np.inf, 'ninf': -np.inf}[fk]
        if ext == 'entry' and g.size > 0:
          flat = g.reshape(-1).copy()
          flat[int(f.get('pos', 0)) % flat.size] = v
          g = flat.reshape(g.shape)
        else:
          g = np.full(g.shape, v)
      elif fk == 'zero':
        g = np.zeros(g.shape)
      elif fk == 'huge':
        g = _unit(g) * 1e30
      elif fk == 'big':
        g = _unit(g) * 1e12
      elif fk == 'tiny':
        g = _unit(g) * 1e-30
      elif fk == 'subnormal':
        g = _unit(g) * 1e-40
      else:
        raise ValueError(fk)
      out[i] = g
      if fk in POISONING:
        poisoned.add(i)
  # a scale outside the moderate range poisons every leaf
  with np.errstate(over='ignore', invalid='ignore'):
    f32 = [np.asarray(g, np.float32) for g in out]
  for i, g in enumerate(f32):
    a = np.abs(g[np.isfinite(g)]) if g.size else np.zeros(0)
    nz = a[a > 0]
    if (not np.all(np.isfinite(g))) or (nz.size and (nz.max() > 1e12 or
                                                      nz.min() < 1e-12)):
      poisoned.add(i)
  return f32, poisoned


def _unit(g):
  """Entries of magnitude ~1 with the sign pattern of g (never all-zero)."""
  s = np.sign(g)
  s = np.where(s == 0, 1.0, s)
  return s * (1.0 + 0.5 * np.abs(np.tanh(g)))


def make_params(shapes, seed):
  rng = np.random.Generator(np.random.PCG64(int(seed)))
  return [np.asarray(rng.standard_normal(tuple(s)) * 0.5, np.float32)
          for s in shapes]
