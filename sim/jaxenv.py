"""Process-level setup for worker processes. Import before anything JAX."""
import os
import sys

REPO = os.environ.get('VERIF_REPO', '/repo')


def setup(x64):
  os.environ.setdefault('JAX_PLATFORMS', 'cpu')
  flags = os.environ.get('XLA_FLAGS', '')
  want = ['--xla_force_host_platform_device_count=8',
          '--xla_cpu_multi_thread_eigen=false',
          'intra_op_parallelism_threads=1']
  for w in want:
    if w.split('=')[0] not in flags:
      flags += ' ' + w
  os.environ['XLA_FLAGS'] = flags.strip()
  os.environ.setdefault('TF_CPP_MIN_LOG_LEVEL', '3')
  if REPO not in sys.path:
    sys.path.insert(0, REPO)
  import jax
  jax.config.update('jax_enable_x64', bool(x64))
  jax.config.update('jax_platforms', 'cpu')
  import precondition  # noqa: F401
  got = os.path.realpath(os.path.dirname(os.path.dirname(precondition.__file__)))
  if got != os.path.realpath(REPO):
    raise RuntimeError(f'precondition imported from {got}, expected {REPO}')
  return jax
