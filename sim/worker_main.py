"""Worker process: executes plans, one JSON line in, one JSON line out.

Started as `python /verif/sim/worker_main.py <x64:0|1>` (never `-m`, so the
module is loaded once). stdout of library code (tearfree prints einsum
formulas at trace time) is redirected to stderr; the protocol uses a private
duplicate of the original stdout.
"""
import faulthandler
import json
import os
import sys
import traceback

HERE = os.path.dirname(os.path.dirname(os.path.abspath(__file__)))
if HERE not in sys.path:
  sys.path.insert(0, HERE)


def classify_exc(tb_list, repo):
  """'system' if any frame of the traceback is inside the repo under test."""
  for fr in tb_list:
    if os.path.realpath(fr.filename).startswith(os.path.realpath(repo) + os.sep):
      return 'system'
  return 'harness'


def main():
  x64 = bool(int(sys.argv[1]))
  proto = os.fdopen(os.dup(1), 'w', buffering=1)
  os.dup2(2, 1)
  sys.stdout = os.fdopen(1, 'w', buffering=1, closefd=False)
  faulthandler.enable()
  from sim import jaxenv
  jaxenv.setup(x64)
  from sim import dispatch
  proto.write(json.dumps({'ready': True, 'x64': x64}) + '\n')
  proto.flush()
  for line in sys.stdin:
    line = line.strip()
    if not line:
      continue
    job = json.loads(line)
    if job.get('quit'):
      break
    cap = float(job.get('timeout', 600))
    faulthandler.dump_traceback_later(cap, exit=True)
    try:
      res = dispatch.run_job(job)
      out = {'id': job['id'], 'ok': True, 'result': res}
    except BaseException as e:  # pylint: disable=broad-except
      tb = traceback.extract_tb(e.__traceback__)
      kind = classify_exc(tb, jaxenv.REPO)
      where = ''
      for fr in reversed(tb):
        if os.path.realpath(fr.filename).startswith(
            os.path.realpath(jaxenv.REPO) + os.sep):
          where = f'{os.path.basename(fr.filename)}:{fr.name}'
          break
      out = {'id': job['id'], 'ok': False, 'kind': kind,
             'exc': type(e).__name__, 'where': where,
             'msg': str(e)[:500], 'tb': traceback.format_exc()[-4000:]}
      if isinstance(e, (KeyboardInterrupt, SystemExit)):
        proto.write(json.dumps(out) + '\n')
        raise
    finally:
      faulthandler.cancel_dump_traceback_later()
    proto.write(json.dumps(out) + '\n')
    proto.flush()


if __name__ == '__main__':
  main()
