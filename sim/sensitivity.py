"""selftest sensitivity [mutant names...] [--tier quick] [--verify-tests]

Applies each mutant patch to a scratch worktree of /repo outside /repo and
/verif, runs the quick check of every property the mutant is meant to break
with VERIF_REPO pointing at it, and reports which checks kill it. Scratch
worktrees are removed afterwards."""
import json
import os
import subprocess
import sys
import time

HERE = os.path.dirname(os.path.dirname(os.path.abspath(__file__)))
PY = '/venv/bin/python'


def sh(*a, **kw):
  return subprocess.run(list(a), capture_output=True, text=True, **kw)


def main(argv):
  sys.path.insert(0, os.path.join(HERE, 'mutants'))
  import specs
  names = [a for a in argv if not a.startswith('--')]
  verify = '--verify-tests' in argv or '--tests-only' in argv
  tests_only = '--tests-only' in argv
  runs = os.environ.get('VERIF_SENS_RUNS', '')
  results = {}
  respath = os.path.join(HERE, 'mutants', 'results.json')
  if os.path.exists(respath):
    results = json.load(open(respath))
  for sp in specs.SPECS:
    if names and sp['name'] not in names:
      continue
    if sp.get('skip'):
      continue
    work = f"/var/tmp/verif-mut-{sp['name']}"
    sh('git', '-C', '/repo', 'worktree', 'remove', '--force', work)
    r = sh('git', '-C', '/repo', 'worktree', 'add', '-f', '--detach', work, 'HEAD')
    if r.returncode:
      print('worktree failed', r.stderr)
      return 2
    try:
      r = sh('git', '-C', work, 'apply', os.path.join(HERE, 'mutants', sp['name'] + '.patch'))
      if r.returncode:
        print(sp['name'], 'PATCH DOES NOT APPLY', r.stderr[:300])
        results[sp['name']] = {'applies': False}
        continue
      entry = results.setdefault(sp['name'], {})
      entry['applies'] = True
      if verify:
        t0 = time.time()
        r = sh(PY, os.path.join(HERE, 'tools_baseline.py'), work)
        entry['tests_pass'] = r.returncode == 0
        entry['tests_out'] = r.stdout.strip()[-300:]
        print(sp['name'], 'tests_pass=', entry['tests_pass'],
              f'{time.time() - t0:.0f}s', r.stdout.strip()[-200:])
      for prop in ([] if tests_only else sp['props']):
        if not os.path.exists(os.path.join(HERE, 'sim', 'props', prop.lower() + '.py')):
          continue
        env = dict(os.environ, VERIF_REPO=work, VERIF_NO_EVIDENCE='1')
        if runs:
          env['VERIF_RUNS'] = runs
        t0 = time.time()
        r = sh(PY, os.path.join(HERE, 'check.py'), prop, 'quick', env=env, cwd=HERE)
        keys = [l.strip()[4:] for l in r.stdout.splitlines() if l.startswith('  key=')]
        entry.setdefault('checks', {})[prop] = {
            'rc': r.returncode, 'keys': keys[:6], 'wall_s': round(time.time() - t0)}
        print(f"{sp['name']:32s} {prop} rc={r.returncode} "
              f"{'KILLED' if r.returncode == 1 else 'SURVIVED' if r.returncode == 0 else 'HARNESS'} "
              f"{keys[:2]} {time.time() - t0:.0f}s", flush=True)
    finally:
      sh('git', '-C', '/repo', 'worktree', 'remove', '--force', work)
    json.dump(results, open(respath, 'w'), indent=1, sort_keys=True)
  return 0
