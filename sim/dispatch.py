"""Maps a job to the property module that runs it."""
import importlib

import numpy as np


def _clean(o):
  if isinstance(o, dict):
    return {str(k): _clean(v) for k, v in o.items()}
  if isinstance(o, (list, tuple, set)):
    return [_clean(v) for v in o]
  if isinstance(o, np.generic):
    return o.item()
  if isinstance(o, np.ndarray):
    return o.tolist()
  return o


def run_job(job):
  mod = importlib.import_module('sim.props.' + job['prop'].lower())
  plan = job['plan']
  res = mod.run(plan)
  return _clean(res)
