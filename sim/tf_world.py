"""Tearfree optimizer under the simulator."""
import numpy as np

import jax
import jax.numpy as jnp
from flax import serialization

from precondition.tearfree import grafting, momentum, optimizer, second_order
from precondition.tearfree import shampoo, sketchy
from sim.ds_world import make_lr, named_leaves, signature, tree_of, untree  # noqa: F401

DEFAULTS = {
    'second_order': 'shampoo', 'merge_dims': 1024,
    'shampoo': {'block_size': 4, 'update_preconditioners_freq': 1,
                'update_statistics_freq': 1, 'second_moment_decay': 0.999},
    'sketchy': {'epsilon': 1e-7, 'rank': 2, 'relative_epsilon': True,
                'second_moment_decay': 0.999, 'update_freq': 1},
    'graft': {'grafting_type': 'rmsprop', 'second_moment_decay': 0.999,
              'start_preconditioning_step': 0, 'epsilon': 1e-23,
              'skip_preconditioning_any_dim_gt': 4096,
              'skip_preconditioning_rank1': True},
    'momentum': {'ema': False, 'nesterov': True, 'momentum_decay': 0.9,
                 'weight_decay': 0.0, 'weight_decay_after_momentum': True},
}


def full_config(cfg):
  out = {}
  for k, v in DEFAULTS.items():
    if isinstance(v, dict):
      d = dict(v)
      d.update(cfg.get(k, {}))
      out[k] = d
    else:
      out[k] = cfg.get(k, v)
  return out


def build_options(cfg):
  c = full_config(cfg)
  g = dict(c['graft'])
  g['grafting_type'] = grafting.GraftingType(g['grafting_type'])
  so_type = second_order.SecondOrderType(c['second_order'])
  sk = None
  sh = shampoo.Options(**c['shampoo'])
  if so_type == second_order.SecondOrderType.SKETCHY:
    sk = sketchy.Options(**c['sketchy'])
  so = second_order.Options(merge_dims=c['merge_dims'],
                            second_order_type=so_type, shampoo_options=sh,
                            sketchy_options=sk)
  return optimizer.TearfreeOptions(
      grafting_options=grafting.Options(**g), second_order_options=so,
      momentum_options=momentum.Options(**c['momentum']))


class TFWorld:

  def __init__(self, plan):
    self.plan = plan
    self.cfg = full_config(plan.get('config', {}))
    self.lr_spec = plan.get('lr', {'kind': 'const', 'v': 0.1})
    self.mode = plan.get('mode', 'jit')
    self.shapes = [tuple(s) for s in plan['tree']]
    self.n = len(self.shapes)
    self.incarnate()

  def incarnate(self):
    self.opt = optimizer.tearfree(make_lr(self.lr_spec),
                                  build_options(self.cfg))
    if self.mode == 'eager':
      self._upd = self.opt.update
    else:
      self._upd = jax.jit(self.opt.update)

  def init(self, params):
    return self.opt.init(tree_of([jnp.asarray(p) for p in params]))

  def update(self, grads, state, params):
    g = tree_of([jnp.asarray(x) for x in grads])
    p = tree_of([jnp.asarray(x) for x in params])
    return self._upd(g, state, p)

  def updates_np(self, u):
    return [np.asarray(x) for x in untree(u, self.n)]

  @staticmethod
  def to_bytes(state):
    return serialization.to_bytes(state)

  def from_bytes(self, template, data):
    # a trainer places the restored checkpoint on device; numpy leaves fed to
    # an eager update would dispatch to numpy arithmetic (1-ulp differences)
    return jax.tree.map(jnp.asarray, serialization.from_bytes(template, data))

  def set_clock(self, state, t):
    """Every count leaf of the chain is set to the same value."""
    flat, treedef = jax.tree_util.tree_flatten_with_path(state)
    out = []
    for path, leaf in flat:
      k = jax.tree_util.keystr(path)
      if k.endswith('.count'):
        leaf = jnp.full_like(leaf, t)
      out.append(leaf)
    return jax.tree_util.tree_unflatten(treedef, out)
