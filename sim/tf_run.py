"""Run loop and per-tick oracles for the Tearfree optimizer."""
import numpy as np

from sim.ctx import Ctx
from sim.ds_world import named_leaves, sha_leaves, signature
from sim.grads import make_grads, make_params
from sim.refmodel import tearfree as ref
from sim.tf_world import TFWorld

U32 = 2.0 ** -24
U64 = 2.0 ** -53


class TFView:

  def __init__(self, world):
    self.cfg = world.cfg
    self.lays = [ref.layout(s, world.cfg) for s in world.shapes]
    self.so = world.cfg['second_order']

  def find(self, leaves, suffix):
    for k in leaves:
      if k.endswith(suffix):
        return k
    return None

  def counts(self, leaves):
    return {k: int(np.ravel(v)[0]) for k, v in leaves.items()
            if k.endswith('.count')}

  def clock(self, leaves):
    c = self.counts(leaves)
    vals = sorted(set(c.values()))
    return vals[0], len(vals) == 1

  def stats(self, leaves, i, ax):
    k = self.find(leaves, f".blocks['p{i}'].stats[{ax}]")
    return None if k is None else np.asarray(leaves[k], np.float64)

  def roots(self, leaves, i, ax):
    k = self.find(leaves, f".blocks['p{i}'].roots[{ax}]")
    return None if k is None else np.asarray(leaves[k], np.float64)

  def axis(self, leaves, i, ax):
    b = f".sketches['p{i}'].axes[{ax}]."
    k = self.find(leaves, b + 'eigvecs')
    if k is None:
      return None
    pre = k[:-len('eigvecs')]
    f = lambda n: np.asarray(leaves[pre + n], np.float64)
    return dict(V=f('eigvecs'), e=f('eigvals'), inv=f('inv_eigvals'),
                tail=float(f('tail')), inv_tail=float(f('inv_tail')))

  def acc(self, leaves, i):
    k = self.find(leaves, f".acc['p{i}']")
    return None if k is None else np.asarray(leaves[k], np.float64)

  def trace(self, leaves, i):
    k = self.find(leaves, f".trace['p{i}']")
    return None if k is None else np.asarray(leaves[k], np.float64)


def _modekey(world):
  return 'tearfree_' + world.cfg['second_order']


def category(k):
  if k.endswith('.count'):
    return 'count'
  if '.blocks[' in k and '.stats[' in k:
    return 'stat'
  if '.blocks[' in k and '.roots[' in k:
    return 'precond'
  if '.sketches[' in k:
    # the frequent-directions sketch proper; ema_ggt / svd_result_* /
    # inv_prev_tail (add_ggt, ekfac_svd) are refreshed on every step by design
    if k.rsplit('.', 1)[-1] in ('eigvecs', 'eigvals', 'inv_eigvals', 'tail',
                                'inv_tail'):
      return 'sketch'
    return 'sketch_aux'
  if '.acc[' in k:
    return 'acc'
  if '.trace[' in k:
    return 'trace'
  return 'other'


# ------------------------------------------------------------- C04 cadence
def cadence(ctx, rec):
  w, view = rec['world'], rec['view']
  cfg, t = w.cfg, rec['t']
  prev, new = rec['prev'], rec['new']
  mk = _modekey(w)
  for k in new:
    if k.endswith('.count'):
      a, b = int(np.ravel(prev[k])[0]), int(np.ravel(new[k])[0])
      ok = b == a + 1
      ctx.ev('count', 'ok' if ok else 'violation')
      if not ok:
        ctx.violate('count', mk, 'not_plus_one', tick=t, leaf=k, before=a,
                    after=b)
  if view.so == 'shampoo':
    st = t % cfg['shampoo']['update_statistics_freq'] == 0
    pt = t % cfg['shampoo']['update_preconditioners_freq'] == 0
  else:
    st = pt = t % cfg['sketchy']['update_freq'] == 0
  for k in new:
    cat = category(k)
    same = (prev[k].dtype == new[k].dtype and
            prev[k].tobytes() == new[k].tobytes())
    if cat == 'stat':
      if not st:
        ctx.ev('cadence_stats', 'ok' if same else 'violation')
        if not same:
          ctx.violate('cadence_stats', mk, 'changed_off_schedule', tick=t,
                      leaf=k)
      elif not same:
        ctx.probe('stats_changed_on_tick')
    elif cat in ('precond', 'sketch'):
      if not pt:
        ctx.ev('cadence_precond', 'ok' if same else 'violation')
        if not same:
          ctx.violate('cadence_precond', mk, 'changed_off_schedule', tick=t,
                      leaf=k)
      elif not same:
        ctx.probe('precond_changed_on_tick')
  S = cfg['graft']['start_preconditioning_step']
  ctx.state('cad', mk, int(st), int(pt), int(t >= S), rec['opkind'],
            t % 7)


# ------------------------------------------------- C15 one-step refinement
def _tol(u, *mags):
  return 64.0 * u * (sum(float(m) for m in mags) + 1e-300)


def _cmp(ctx, oracle, mk, t, i, impl, model, tol, what, pred='step'):
  impl = np.asarray(impl, np.float64)
  model = np.asarray(model, np.float64)
  if impl.shape != model.shape:
    ctx.violate(oracle, mk, 'shape_mismatch', tick=t, leaf=i, what=what)
    ctx.ev(oracle, 'violation')
    return False
  if impl.size == 0:
    ctx.ev(oracle)
    return True
  if not np.all(np.isfinite(model)):
    ctx.ev(oracle, 'vacuous')
    return True
  scale = float(np.max(np.abs(model)))
  if tol > 0.05 * max(scale, 1e-300) and tol > 1e-30:
    ctx.ev(oracle, 'vacuous')
    return True
  diff = float(np.max(np.abs(impl - model))) if np.all(
      np.isfinite(impl)) else float('inf')
  if diff > tol:
    ctx.violate(oracle, mk, pred, tick=t, leaf=i, what=what, diff=diff,
                tol=tol, scale=scale)
    ctx.ev(oracle, 'violation')
    return False
  ctx.ev(oracle, 'ok', diff / tol if tol > 0 else 0.0)
  return True


class LayoutMismatch(Exception):
  pass


def check_layout(ctx, view, rec):
  """The set of leaves that carry second-order state must be the one the
  documented skip rules give. Returns the indices that disagree."""
  bad = set()
  for i, lay in enumerate(view.lays):
    rank = len(lay['padded'])
    if rank == 0:
      continue      # nothing to precondition, no state to look for
    if view.so == 'shampoo':
      has = view.stats(rec['prev'], i, 0) is not None
    else:
      has = view.axis(rec['prev'], i, 0) is not None
    if has is None:
      continue
    if has == lay['masked']:
      bad.add(i)
      if ('layout', i) not in ctx.__dict__.setdefault('_reported', set()):
        ctx._reported.add(('layout', i))
        ctx.violate('state_layout', _modekey(rec['world']),
                    'leaf_excluded_from_preconditioning_unexpectedly'
                    if not has else 'leaf_preconditioned_unexpectedly',
                    tick=rec['t'], leaf=i, shape=list(lay['shape']))
  return bad


def model_leaf(w, view, rec, i, active=None, property_discount=True):
  """One-step model for leaf i fed the implementation's previous state.
  Returns dict with predicted pieces (None where not applicable)."""
  cfg, t = w.cfg, rec['t']
  prev, new = rec['prev'], rec['new']
  lay = view.lays[i]
  if i in rec.get('layout_bad', ()):
    raise LayoutMismatch(i)
  g = np.asarray(rec['grads'][i], np.float64)
  out = dict(lay=lay)
  rank = len(lay['padded'])
  base = None
  if not lay['masked']:
    if view.so == 'shampoo':
      stats = [view.stats(prev, i, ax) for ax in range(rank)]
      roots = [view.roots(prev, i, ax) for ax in range(rank)]
      r = ref.shampoo_step(cfg, lay, t, g, stats, roots)
      out['so'] = r
      # direction from the roots the implementation stores after the tick
      # when they are ambiguous (eigenvalue at the cut-off), else the model's
      iroots = [view.roots(new, i, ax) for ax in range(rank)]
      out['impl_roots'] = iroots
      # the direction is computed from the roots the implementation stores
      # (validated on their own by step_roots with a conditioning-aware
      # tolerance), so the update tolerance only carries the application error
      use = iroots
      base = ref.shampoo_direction(lay, g, use)
      out['roots_norm'] = [float(np.max(np.abs(x))) if x.size else 0.0
                           for x in use]
    else:
      o = cfg['sketchy']
      x = ref.merge_pad(g, lay)
      upd_tick = t % o['update_freq'] == 0
      axes_new = []
      for ax in range(rank):
        a = view.axis(prev, i, ax)
        if upd_tick:
          G = np.moveaxis(x, ax, 0).reshape(x.shape[ax], -1)
          a2 = ref.sketchy_axis_step(o, rank, G, a['V'], a['e'], a['tail'],
                                     property_discount)
        else:
          a2 = dict(V=a['V'], e=a['e'], inv=a['inv'], tail=a['tail'],
                    inv_tail=a['inv_tail'], rho=None)
        axes_new.append(a2)
      out['axes'] = axes_new
      out['upd_tick'] = upd_tick
      iaxes = [view.axis(new, i, ax) for ax in range(rank)]
      out['impl_axes'] = iaxes
      # direction: use the implementation's stored sketch (sign/rotation of
      # eigenvectors is not unique); the sketch itself is checked separately
      base = ref.unpad_unmerge(ref.sketchy_direction(x, iaxes), lay)
      # rounding sensitivity of the application: float32 vs float64 evaluation
      with np.errstate(all='ignore'):
        b32 = ref.unpad_unmerge(np.asarray(ref.sketchy_direction(
            x, iaxes, dtype=np.float32), np.float64), lay)
      out['base_sens'] = float(np.max(np.abs(b32 - base))) if base.size and \
          np.all(np.isfinite(b32)) else float('inf')
      out['roots_norm'] = [max(float(np.max(np.abs(a['inv']))) if a['inv'].size
                               else 0.0, abs(a['inv_tail']), 1e-300)
                           for a in iaxes]
  acc = view.acc(prev, i)
  gamma, new_acc = ref.graft_step(cfg, g, acc if acc is not None else 0.0)
  out['gamma'], out['acc'] = gamma, new_acc
  t_g = rec['t']
  if active is None:
    comb = ref.combine(cfg, t_g, base, gamma, lay['masked'])
  else:
    S = cfg['graft']['start_preconditioning_step']
    fake_t = S if active else S - 1
    comb = ref.combine(cfg, fake_t, base, gamma, lay['masked'])
  out['base'] = base
  out['pre_momentum'] = comb
  tr = view.trace(prev, i)
  upd, new_tr = ref.momentum_lr(cfg, w.lr_spec, rec['t'], comb,
                                rec['params'][i], tr if tr is not None else 0.0)
  out['update'], out['trace'] = upd, new_tr
  return out


def refine(ctx, rec):
  w, view = rec['world'], rec['view']
  cfg, t = w.cfg, rec['t']
  prev, new = rec['prev'], rec['new']
  mk = _modekey(w)
  u = U64 if rec['x64'] and view.so == 'shampoo' else U32
  for i, lay in enumerate(view.lays):
    if i in rec['poisoned'] or i in rec.get('layout_bad', ()):
      for o in ('step_update', 'step_stats', 'step_roots', 'step_graft_acc',
                'step_momentum'):
        ctx.ev(o, 'muted')
      continue
    m = model_leaf(w, view, rec, i)
    rank = len(lay['padded'])
    cond_amp = 1.0
    if not lay['masked'] and view.so == 'shampoo':
      so = m['so']
      for ax in range(rank):
        a, b = view.stats(new, i, ax), so['stats'][ax]
        nblk = max(int(np.prod(lay['bdims'])), 1)
        _cmp(ctx, 'step_stats', mk, t, i, a, b,
             _tol(u, np.max(np.abs(b)) * (nblk + 4)), f'stats[{ax}]')
        if so['pr_tick']:
          if so['ambiguous']:
            ctx.ev('step_roots', 'vacuous')
            ctx.probe('eigenvalue_at_cutoff')
          else:
            ir = view.roots(new, i, ax)
            mr = so['roots'][ax]
            # conditioning of the eigendecomposition of each block
            tol = 0.0
            for n in range(mr.shape[0]):
              wv = np.linalg.eigvalsh(0.5 * (b[n] + b[n].T))
              mx = float(np.max(wv)) if wv.size else 0.0
              kept = wv[wv > 1e-6 * mx]
              if kept.size:
                kap = mx / float(np.min(kept))
                tol = max(tol, 64.0 * u * kap * float(np.max(np.abs(mr[n])))
                          * mr.shape[1])
            _cmp(ctx, 'step_roots', mk, t, i, ir, mr, tol + 1e-300,
                 f'roots[{ax}]',
                 pred='per_block_cutoff' if _only_cutoff_differs(
                     ir, mr, b) else 'step')
        else:
          ir = view.roots(new, i, ax)
          pr = view.roots(prev, i, ax)
          ctx.ev('step_roots', 'ok' if np.array_equal(ir, pr) else 'violation')
    if not lay['masked']:
      cond_amp = float(np.prod([max(x, 1e-300) for x in m['roots_norm']]))
    if m['acc'] is not None and view.acc(new, i) is not None:
      _cmp(ctx, 'step_graft_acc', mk, t, i, view.acc(new, i), m['acc'],
           _tol(u, np.max(np.abs(m['acc'])) if np.size(m['acc']) else 0.0),
           'graft_acc')
    g = rec['grads'][i]
    gmax = float(np.max(np.abs(g))) if np.size(g) else 0.0
    n_el = max(int(np.size(g)), 1)
    base_err = 0.0
    if m['base'] is not None:
      # forward error of applying the roots: u * prod ||R|| * ||g|| * n
      base_err = 64.0 * u * cond_amp * np.sqrt(n_el) * gmax * (
          sum(lay['bdims']) + 4)
      if 'base_sens' in m:
        # measured float32-vs-float64 sensitivity of the sketch application
        # (cancellation in g - V V^T g is amplified by inv_tail)
        base_err = base_err + 16.0 * m['base_sens'] * np.sqrt(n_el)
      nb = float(np.linalg.norm(m['base']))
      ng = float(np.linalg.norm(m['gamma']))
      if cfg['graft']['grafting_type'] != 'none' and nb > 0:
        base_err = 2.0 * base_err * ng / nb
      if u == U32 and cfg['graft']['grafting_type'] != 'none' and \
          (0 < nb < 1e-15 or nb * nb > 1e37):
        # float32 norm of the direction under/overflows in the implementation
        ctx.ev('step_update', 'vacuous')
        ctx.ev('step_momentum', 'vacuous')
        continue
    pm = m['pre_momentum']
    tr_prev = view.trace(prev, i)
    mag = (float(np.max(np.abs(pm))) if np.size(pm) else 0.0) + (
        float(np.max(np.abs(tr_prev))) if tr_prev is not None and
        np.size(tr_prev) else 0.0) + cfg['momentum']['weight_decay'] * (
            float(np.max(np.abs(rec['params'][i])))
            if np.size(rec['params'][i]) else 0.0)
    tol_u = 3.0 * base_err + _tol(u, mag)
    if view.trace(new, i) is not None:
      _cmp(ctx, 'step_momentum', mk, t, i, view.trace(new, i), m['trace'],
           tol_u, 'trace')
    lr = abs(ref.lr_value(w.lr_spec, t))
    _cmp(ctx, 'step_update', mk, t, i, rec['updates'][i], m['update'],
         lr * tol_u + 1e-300, 'update')
  ctx.state('ref', mk, cfg['graft']['grafting_type'],
            int(cfg['momentum']['nesterov']), int(cfg['momentum']['ema']),
            int(t >= cfg['graft']['start_preconditioning_step']))


def _only_cutoff_differs(impl_roots, model_roots, stats):
  """True when some block's implementation root is exactly zero in a direction
  the per-block rule keeps (the shared cut-off signature)."""
  try:
    for n in range(model_roots.shape[0]):
      if np.max(np.abs(model_roots[n])) > 0 and np.max(
          np.abs(impl_roots[n])) == 0:
        return True
  except Exception:  # pylint: disable=broad-except
    pass
  return False


# ------------------------------------------------------- C04 warm-up branch
def warmup(ctx, rec):
  w, view = rec['world'], rec['view']
  cfg, t = w.cfg, rec['t']
  mk = _modekey(w)
  if cfg['graft']['grafting_type'] == 'none':
    return
  S = cfg['graft']['start_preconditioning_step']
  for i, lay in enumerate(view.lays):
    if i in rec['poisoned'] or lay['masked'] or i in rec.get('layout_bad', ()):
      ctx.ev('warmup', 'muted')
      continue
    right = model_leaf(w, view, rec, i, active=(t >= S))['update']
    wrong = model_leaf(w, view, rec, i, active=not (t >= S))['update']
    u = np.asarray(rec['updates'][i], np.float64)
    if not (np.all(np.isfinite(right)) and np.all(np.isfinite(wrong)) and
            np.all(np.isfinite(u))) or u.size == 0:
      ctx.ev('warmup', 'vacuous')
      continue
    sc = float(np.max(np.abs(right))) + float(np.max(np.abs(wrong))) + 1e-300
    sep = float(np.max(np.abs(right - wrong))) / sc
    if sep < 1e-3:
      ctx.ev('warmup', 'vacuous')
      continue
    dr = float(np.max(np.abs(u - right)))
    dw = float(np.max(np.abs(u - wrong)))
    if dw < dr and dw < 0.05 * sep * sc:
      ctx.violate('warmup', mk, 'wrong_branch_at_boundary'
                  if abs(t - S) <= 1 else 'wrong_branch', tick=t, leaf=i,
                  start=S)
      ctx.ev('warmup', 'violation')
    else:
      ctx.ev('warmup')
      if abs(t - S) <= 1:
        ctx.probe('warmup_boundary_discriminated')


# --------------------------------------------------------------- C05 grafting
def graft(ctx, rec):
  """No momentum, no weight decay: the update is -lr * (grafted step)."""
  w, view = rec['world'], rec['view']
  cfg, t = w.cfg, rec['t']
  mk = _modekey(w)
  if cfg['momentum']['momentum_decay'] or cfg['momentum']['weight_decay']:
    return
  gt = cfg['graft']['grafting_type']
  if gt == 'none':
    return
  S = cfg['graft']['start_preconditioning_step']
  lr = ref.lr_value(w.lr_spec, t)
  u32 = U64 if rec['x64'] and view.so == 'shampoo' else U32
  for i, lay in enumerate(view.lays):
    if i in rec['poisoned'] or i in rec.get('layout_bad', ()):
      for o in ('graft_norm', 'graft_dir', 'warmup_graft'):
        ctx.ev(o, 'muted')
      continue
    m = model_leaf(w, view, rec, i)
    u = np.asarray(rec['updates'][i], np.float64)
    if u.size == 0:
      continue
    gamma = m['gamma']
    if lay['masked'] or t < S:
      want = -lr * gamma
      tol = 64 * u32 * (float(np.max(np.abs(want))) + 1e-300)
      ok = float(np.max(np.abs(u - want))) <= tol
      ctx.ev('warmup_graft', 'ok' if ok else 'violation')
      if not ok:
        ctx.violate('warmup_graft', mk, 'masked_leaf' if lay['masked']
                    else 'before_start_step', tick=t, leaf=i)
      continue
    # direction from the implementation's own stored roots / sketch
    if view.so == 'shampoo':
      base = ref.shampoo_direction(lay, rec['grads'][i], m['impl_roots'])
      amp = float(np.prod([max(float(np.max(np.abs(x))), 1e-300)
                           for x in m['impl_roots']])) if m['impl_roots'] else 1.0
    else:
      base = m['base']
      amp = 1.0
      for a in m['impl_axes']:
        amp *= max(float(np.max(np.abs(a['inv']))) if a['inv'].size else 0.0,
                   abs(a['inv_tail']), 1e-300)
    nb = float(np.linalg.norm(base))
    ng = float(np.linalg.norm(gamma))
    nu = float(np.linalg.norm(u))
    g = rec['grads'][i]
    err = 64 * u32 * amp * float(np.linalg.norm(g)) * (sum(lay['padded']) + 4)
    if not (np.isfinite(nb) and np.isfinite(nu)):
      ctx.ev('graft_norm', 'vacuous')
      continue
    if nb == 0.0:
      ok = nu == 0.0
      ctx.ev('graft_norm', 'ok' if ok else 'violation')
      if not ok:
        ctx.violate('graft_norm', mk, 'nonzero_update_for_zero_direction',
                    tick=t, leaf=i)
      continue
    if nb <= 10 * err or (u32 == U32 and (nb < 1e-15 or nb * nb > 1e37)):
      # (float32: squares of entries below 1e-19 are flushed to zero)
      ctx.ev('graft_norm', 'vacuous')
      ctx.ev('graft_dir', 'vacuous')
      continue
    want_norm = abs(lr) * ng
    rel = 1e-5 + 4 * err / nb
    ok = abs(nu - want_norm) <= rel * max(want_norm, 1e-300) + 1e-38
    ctx.ev('graft_norm', 'ok' if ok else 'violation',
           abs(nu - want_norm) / (rel * max(want_norm, 1e-300) + 1e-38))
    if not ok:
      ctx.violate('graft_norm', mk, 'norm_not_transplanted', tick=t, leaf=i,
                  got=nu, want=want_norm)
    if nu > 0 and want_norm > 0:
      dirn = float(np.linalg.norm(u / nu + np.sign(lr) * base / nb))
      if rel > 0.05:
        ctx.ev('graft_dir', 'vacuous')
      else:
        ok = dirn <= rel
        ctx.ev('graft_dir', 'ok' if ok else 'violation', dirn / rel)
        if not ok:
          ctx.violate('graft_dir', mk, 'direction_not_preconditioned_grad',
                      tick=t, leaf=i, angle=dirn, tol=rel)
  ctx.state('graft', mk, gt, int(t >= S), rec['opkind'])


# ------------------------------------------------ C09 frequent directions
def fd(ctx, rec):
  """Sketch state of Tearfree Sketchy against the exact float64 covariance."""
  from sim import fd_oracle
  w, view = rec['world'], rec['view']
  cfg, t = w.cfg, rec['t']
  if view.so != 'sketchy':
    return
  mk = _modekey(w)
  o = cfg['sketchy']
  beta = o['second_moment_decay']
  hist = ctx.__dict__.setdefault('hist', {})
  cov = hist.setdefault('cov', {})
  lowrank = hist.setdefault('lowrank', {})
  upd_tick = t % o['update_freq'] == 0
  for i, lay in enumerate(view.lays):
    if lay['masked'] or i in rec.get('layout_bad', ()):
      continue
    rank = len(lay['padded'])
    if i in rec['poisoned']:
      ctx.ev('fd_bracket', 'muted')
      for ax in range(rank):
        cov.pop((i, ax), None)
      continue
    x = ref.merge_pad(rec['grads'][i], lay)
    for ax in range(rank):
      a0 = view.axis(rec['prev'], i, ax)
      a1 = view.axis(rec['new'], i, ax)
      d, k = a1['V'].shape
      key = (i, ax)
      if key not in cov:
        if t != 0 and not np.all(a0['e'] == 0):
          continue      # history unknown (joined mid-run)
        cov[key] = np.zeros((d, d))
        lowrank[key] = True
      if not upd_tick:
        continue
      G = np.moveaxis(x, ax, 0).reshape(x.shape[ax], -1)
      cov[key] = beta * cov[key] + G @ G.T
      C = cov[key]
      ell1 = a1['e'] ** 2
      where = f'p{i}.axes[{ax}]'
      extra = dict(k=k, d=d, beta=beta)
      fd_oracle.check_sketch(ctx, mk, t, where, a1['V'], ell1, a1['tail'], C,
                             tol=1e-4, extra=extra)
      # escaped-mass recurrence: tau' = beta * tau + r_t
      r_t, wfull = fd_oracle.kth_eig(a0['V'], a0['e'] ** 2, G, beta, k)
      want = beta * a0['tail'] + r_t
      sc = max(float(wfull[0]) if len(wfull) else 0.0, a0['tail'], 1e-300)
      tolr = 1e-4 * sc
      okr = abs(a1['tail'] - want) <= tolr
      zero_tick = not np.any(G)
      if zero_tick:
        ctx.probe('fd_zero_tick')
      if a0['tail'] > 0 and beta < 1:
        ctx.probe('fd_discounted_tail')
      ctx.ev('fd_tail_recurrence', 'ok' if okr else 'violation',
             abs(a1['tail'] - want) / tolr)
      if not okr:
        alt = np.sqrt(beta) * a0['tail'] + r_t
        pred = 'tail_discounted_by_sqrt_decay' if abs(
            a1['tail'] - alt) <= tolr else (
                'zero_tick' if zero_tick else 'step')
        ctx.violate('fd_tail_recurrence', mk, pred, tick=t, where=where,
                    got=a1['tail'], want=want, prev_tail=a0['tail'], r=r_t,
                    **extra)
      if zero_tick:
        # both sketch and escaped mass are discounted by exactly beta
        d0 = np.sort(a0['e'] ** 2)[::-1] * beta
        d1 = np.sort(ell1)[::-1]
        okz = np.max(np.abs(d0 - d1)) <= 1e-4 * max(float(np.max(d0)), 1e-300) \
            if k else True
        ctx.ev('fd_zero_tick', 'ok' if okz else 'violation')
        if not okz:
          ctx.violate('fd_zero_tick', mk, 'sketch_not_discounted_by_decay',
                      tick=t, where=where, **extra)
      # history of rank <= k is tracked exactly
      rk = np.linalg.matrix_rank(C, tol=1e-9 * max(np.trace(C), 1e-300)) \
          if np.any(C) else 0
      if rk <= k:
        ctx.probe('fd_rank_deficient_history')
        okl = a1['tail'] <= 1e-5 * max(float(np.trace(C)), 1e-300)
        ctx.ev('fd_lowrank_exact', 'ok' if okl else 'violation')
        if not okl:
          ctx.violate('fd_lowrank_exact', mk, 'tail_nonzero_for_rank_le_k',
                      tick=t, where=where, tail=a1['tail'], rank=int(rk),
                      **extra)
      # stored inverse roots = (l + t + eps)^(-1/p)
      p = 2 * rank
      und = ell1 + a1['tail']
      eps = o['epsilon']
      if o.get('relative_epsilon', True) and eps > 0:
        eps = eps * float(np.max(und)) if k else eps
      mask = a1['e'] > 0
      with np.errstate(divide='ignore', invalid='ignore'):
        want_inv = np.where(mask, (und + eps) ** (-1.0 / p), 0.0)
        want_it = (a1['tail'] + eps) ** (-1.0 / p) if a1['tail'] > 0 else 0.0
      if np.all(np.isfinite(want_inv)) and np.isfinite(want_it):
        # the implementation forms l + t before deflation (top^2 + beta*tail)
        tol_i = 2e-4 * (float(np.max(np.abs(want_inv))) if k else 0.0) + 1e-30
        oki = (np.max(np.abs(a1['inv'] - want_inv)) <= tol_i if k else True) and \
            abs(a1['inv_tail'] - want_it) <= 2e-4 * abs(want_it) + 1e-30
        ctx.ev('fd_inverse', 'ok' if oki else 'violation')
        if not oki:
          ctx.violate('fd_inverse', mk, 'stored_inverse_root_mismatch', tick=t,
                      where=where, **extra)
      else:
        ctx.ev('fd_inverse', 'vacuous')
  ctx.state('fd', mk, int(upd_tick), rec['opkind'], o['rank'],
            int(beta < 1), t % 5)


ORACLES = {'cadence': cadence, 'refine': refine, 'warmup': warmup,
           'graft': graft, 'fd': fd}


def register(name, fn):
  ORACLES[name] = fn


def run(plan, prop):
  ctx = Ctx(plan, prop)
  shapes = [tuple(s) for s in plan['tree']]
  params = make_params(shapes, plan.get('param_seed', 0))
  fdt = np.float64 if plan.get('x64', True) and plan.get(
      'float64_params', True) else np.float32
  params = [np.asarray(p, fdt) for p in params]
  world = TFWorld(plan)
  view = TFView(world)
  state = world.init(params)
  init_sig = signature(state)
  volatile, durable = {}, {}
  poisoned = set()
  oracles = [ORACLES[o] for o in plan.get('oracles', [])]
  ctx.log.add(op='INIT', st=sha_leaves(named_leaves(state)))
  after_restore = False
  for idx, op in enumerate(plan['ops']):
    ctx.op_index = idx
    kind = op['op']
    ctx.saw_op(kind)
    if kind == 'STEP':
      grads, pnow = make_grads(shapes, op)
      grads = [np.asarray(g, fdt) for g in grads]
      prev = named_leaves(state)
      t, agree = view.clock(prev)
      if not agree:
        ctx.violate('count', _modekey(world), 'counters_disagree',
                    counts=view.counts(prev))
      u, state2 = world.update(grads, state, params)
      new = named_leaves(state2)
      ups = world.updates_np(u)
      if op.get('fault'):
        ctx.faults[op['fault']['kind']] += 1
      poisoned |= pnow
      rec = dict(t=t, op=op, opkind=('STEP_AFTER_RESTORE' if after_restore
                                     else 'STEP'),
                 grads=grads, poisoned=set(poisoned), poisoned_now=pnow,
                 prev=prev, new=new, updates=ups, view=view, params=params,
                 world=world, x64=bool(plan.get('x64', True)))
      rec['layout_bad'] = check_layout(ctx, view, rec)
      for o in oracles:
        try:
          o(ctx, rec)
        except LayoutMismatch:
          pass
      if signature(state2) != init_sig and plan.get('check_layout', True):
        ctx.violate('layout_fixed_point', _modekey(world),
                    'state_signature_changed', tick=t)
      state = state2
      ctx.ticks += 1
      ctx.max_clock = max(ctx.max_clock, t + 1)
      ctx.log.add(op='STEP', t=t, upd=sha_leaves(
          {str(i): x for i, x in enumerate(ups)}), st=sha_leaves(new))
      after_restore = False
      if plan.get('params_follow') and not poisoned:
        params = [np.asarray(p + x, p.dtype) for p, x in zip(params, ups)]
    elif kind == 'CHECKPOINT':
      t, _ = view.clock(named_leaves(state))
      import copy as _copy
      volatile[t] = (world.to_bytes(state), set(poisoned),
                     [np.array(p) for p in params],
                     _copy.deepcopy(ctx.__dict__.get('hist', {})))
      if op.get('sync', True):
        durable.update(volatile)
        volatile = {}
      ctx.log.add(op='CHECKPOINT', t=t)
    elif kind == 'CRASH_RESTORE':
      volatile = {}
      if not durable:
        continue
      keys = sorted(durable)
      k = keys[int(op.get('which', -1)) % len(keys)]
      data, pz, pars, hist = durable[k]
      import copy as _copy
      ctx.hist = _copy.deepcopy(hist)
      del world, state
      world = TFWorld(plan)
      view = TFView(world)
      template = world.init(params)
      state = world.from_bytes(template, data)
      if signature(state) != signature(template):
        ctx.violate('restore_layout', _modekey(world), 'signature_differs',
                    at=k)
      poisoned = set(pz)
      params = [np.array(p) for p in pars]
      after_restore = True
      ctx.probe('restore_on_refresh_tick')
      ctx.log.add(op=kind, at=k)
    elif kind == 'REJIT':
      world.incarnate()
      ctx.log.add(op='REJIT')
    elif kind == 'CLOCK_JUMP':
      state = world.set_clock(state, int(op['to']))
      ctx.probe('clock_jump')
      ctx.log.add(op='CLOCK_JUMP', to=int(op['to']))
    else:
      raise ValueError(kind)
  return ctx.result()
