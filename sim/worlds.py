"""World factory across optimizer families."""


def make_world(plan, **kw):
  s = plan['system']
  if s == 'ds':
    from sim.ds_world import DSWorld
    return DSWorld(plan, **kw)
  if s == 'tearfree':
    from sim.tf_world import TFWorld
    return TFWorld(plan)
  if s == 'sm3':
    from sim.sm3_world import SM3World
    return SM3World(plan)
  raise ValueError(s)
