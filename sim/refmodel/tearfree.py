"""Float64 one-step reference of the Tearfree optimizer (DESIGN appendix B,
C.2). Written from the docstrings; shares no code with the repo.

u = -lr(t_lr) * WD_after?( MOM( WD_before?( GRAFT( UNMERGE( SO( MERGE(g)))))))
"""
import itertools

import numpy as np

from sim.refmodel import shapes as shp
from sim.refmodel.ds import lr_value, unfold_gram


def layout(shape, cfg):
  shape = tuple(shape)
  merged = shp.merge_dims(shape, cfg['merge_dims'])
  if merged == [1]:
    merged = []
  so = cfg['second_order']
  B = cfg['shampoo']['block_size']
  if so == 'shampoo':
    padded = [((d + B - 1) // B) * B if d >= B else d for d in merged]
  else:
    padded = list(merged)
  g = cfg['graft']
  masked = False
  if g['grafting_type'] != 'none':
    if g.get('skip_preconditioning_rank1', True) and len(shape) <= 1:
      masked = True
    if any(s > g.get('skip_preconditioning_any_dim_gt', 4096) for s in shape):
      masked = True
  large = [i for i, d in enumerate(padded) if d >= B] if so == 'shampoo' else []
  per_axis = []
  for i, d in enumerate(padded):
    if i in large:
      per_axis.append([(k * B, (k + 1) * B) for k in range(d // B)])
    else:
      per_axis.append([(0, d)])
  blocks = []
  # block order: row-major over the large axes
  for combo in itertools.product(*per_axis):
    blocks.append(tuple(slice(a, b) for a, b in combo))
  return dict(shape=shape, merged=tuple(merged), padded=tuple(padded),
              masked=masked, blocks=blocks, large=large,
              bdims=[min(d, B) for d in padded] if so == 'shampoo' else list(padded))


def merge_pad(g, lay):
  x = np.asarray(g, np.float64).reshape(lay['merged'])
  if lay['padded'] != lay['merged']:
    pad = [(0, p - m) for p, m in zip(lay['padded'], lay['merged'])]
    x = np.pad(x, pad)
  return x


def unpad_unmerge(x, lay):
  sl = tuple(slice(0, m) for m in lay['merged'])
  return x[sl].reshape(lay['shape'])


def inv_root_exact(C, p, cutoff=1e-6):
  """Exact inverse p-th root with eigenvalues <= cutoff * max of THIS matrix
  treated as zero. Returns (root, ambiguous)."""
  C = np.asarray(C, np.float64)
  w, v = np.linalg.eigh(0.5 * (C + C.T))
  mx = float(np.max(w)) if w.size else 0.0
  thr = cutoff * mx
  mask = w <= thr
  amb = bool(np.any((w > 0.25 * thr) & (w < 4.0 * thr))) if mx > 0 else False
  r = np.where(mask, 0.0, np.where(mask, 1.0, w) ** (-1.0 / p))
  return (v * r) @ v.T, amb


def shampoo_step(cfg, lay, t, g, stats, roots):
  """stats/roots: per axis arrays (N, d, d). Returns dict."""
  o = cfg['shampoo']
  beta = o['second_moment_decay']
  x = merge_pad(g, lay)
  rank = len(lay['padded'])
  st_tick = t % o['update_statistics_freq'] == 0
  pr_tick = t % o['update_preconditioners_freq'] == 0
  new_stats = [np.array(s, np.float64) for s in stats]
  if st_tick:
    for ax in range(rank):
      for n, sl in enumerate(lay['blocks']):
        c = unfold_gram(x[sl], ax)
        if beta == 1.0:
          new_stats[ax][n] = new_stats[ax][n] + c
        else:
          new_stats[ax][n] = beta * new_stats[ax][n] + (1 - beta) * c
  new_roots = [np.array(r, np.float64) for r in roots]
  amb = False
  if pr_tick:
    p = 2 * rank
    for ax in range(rank):
      for n in range(len(lay['blocks'])):
        new_roots[ax][n], a = inv_root_exact(new_stats[ax][n], p)
        amb = amb or a
  return dict(stats=new_stats, roots=new_roots, st_tick=st_tick,
              pr_tick=pr_tick, ambiguous=amb)


def shampoo_direction(lay, g, roots):
  x = merge_pad(g, lay)
  out = np.zeros_like(x)
  rank = len(lay['padded'])
  for n, sl in enumerate(lay['blocks']):
    blk = x[sl]
    for ax in range(rank):
      r = np.asarray(roots[ax][n], np.float64)
      blk = np.moveaxis(np.tensordot(r, blk, axes=([1], [ax])), 0, ax)
    out[sl] = blk
  return unpad_unmerge(out, lay)


def sketchy_axis_step(o, ndim, G, V, e, tail, property_discount=True):
  """One frequent-directions step for one axis. G: (d, m) unfolded gradient.
  e are eigenvalues of the square root of the covariance sketch.
  property_discount: escaped mass discounted by beta (the property) vs the
  sqrt(beta) candidate, used only to classify a finding."""
  beta = o['second_moment_decay']
  d, k = V.shape
  Bm = np.concatenate([V * e[np.newaxis, :] * np.sqrt(beta), G], axis=1)
  u, s, _ = np.linalg.svd(Bm, full_matrices=False)
  cutoff = s[k] if k < len(s) else 0.0
  top = np.zeros(k)
  top[:min(k, len(s))] = s[:k]
  defl = np.sqrt(np.maximum(0.0, top - cutoff)) * np.sqrt(top + cutoff)
  disc = beta if property_discount else np.sqrt(beta)
  new_tail = tail * disc + cutoff ** 2
  undefl = top ** 2 + tail * disc
  mask = defl > 0
  alpha = -1.0 / (2 * ndim)
  eps = o['epsilon']
  if o.get('relative_epsilon', True) and eps > 0:
    eps = float(np.max(undefl)) * eps if undefl.size else eps
  with np.errstate(divide='ignore', invalid='ignore'):
    inv = np.where(mask, (undefl + eps) ** alpha, 0.0)
    inv_tail = (new_tail + eps) ** alpha if new_tail > 0 else 0.0
  Vn = np.zeros((d, k))
  Vn[:, :min(k, u.shape[1])] = u[:, :k]
  Vn = Vn * mask
  return dict(V=Vn, e=defl * mask, inv=inv, tail=new_tail, inv_tail=inv_tail,
              rho=cutoff ** 2, top=top)


def sketchy_direction(x, axes, dtype=np.float64):
  """axes: list of dict(V, inv, inv_tail) per dim. Applies
  inv_tail (I - V V^T) + V diag(inv) V^T along every axis, in the order of
  operations of the documented low-rank application (project, complement,
  rescale). dtype=float32 gives a rounding-sensitivity probe."""
  g = np.asarray(x, dtype)
  for ax, a in enumerate(axes):
    V = np.asarray(a['V'], dtype)
    inv = np.asarray(a['inv'], dtype)
    it = dtype(a['inv_tail'])
    gm = np.moveaxis(g, ax, 0)
    low = np.tensordot(V.T, gm, axes=([1], [0]))          # V^T g
    comp = gm - np.tensordot(V, low, axes=([1], [0]))      # g - V V^T g
    out = np.tensordot(V * inv, low, axes=([1], [0])) + it * comp
    g = np.moveaxis(out, 0, ax)
  return g


def graft_step(cfg, g, acc):
  gt = cfg['graft']['grafting_type']
  g = np.asarray(g, np.float64)
  if gt in ('none', 'sgd'):
    return g, acc
  if gt == 'rmsprop':
    b = cfg['graft']['second_moment_decay']
    a = (acc + g * g) if b == 1.0 else (b * acc + (1 - b) * g * g)
    return g / np.sqrt(a + cfg['graft']['epsilon']), a
  raise NotImplementedError(gt)


def combine(cfg, t_g, base, gamma, masked):
  """GRAFT: base direction with the graft step's norm from the start step on."""
  if cfg['graft']['grafting_type'] == 'none':
    return base
  if masked:
    return gamma
  if t_g >= cfg['graft']['start_preconditioning_step']:
    nb = np.linalg.norm(base)
    return base * (np.linalg.norm(gamma) / nb) if nb > 0 else np.zeros_like(base)
  return gamma


def momentum_lr(cfg, lr_spec, t_lr, x, theta, trace):
  """WD_before? -> MOM -> WD_after? -> -lr. Returns (update, new_trace)."""
  m = cfg['momentum']
  wd = m['weight_decay']
  dec = m['momentum_decay']
  theta = np.asarray(theta, np.float64)
  if wd > 0 and not m['weight_decay_after_momentum']:
    x = x + wd * theta
  new_trace = trace
  if dec:
    if m['ema']:
      x = x * (1 - dec)
    new_trace = x + dec * trace
    x = (x + dec * new_trace) if m['nesterov'] else new_trace
  if wd > 0 and m['weight_decay_after_momentum']:
    x = x + wd * theta
  return -lr_value(lr_spec, t_lr) * x, new_trace
