"""Shape pipeline of Distributed Shampoo, written from the docstrings (pure
python, shares no code with the repo). DESIGN appendix A.1."""
import itertools


def merge_dims(shape, limit):
  shape = list(shape)
  if shape and all(d == 1 for d in shape):
    return [1]
  out, prod = [], 1
  for d in shape:
    if prod * d <= limit:
      prod *= d
    else:
      if prod > 1:
        out.append(prod)
      prod = d
  if prod > 1:
    out.append(prod)
  return out


def transformed_shape(shape, cfg):
  if cfg.get('best_effort_shape_interpretation', True):
    return merge_dims(shape, cfg.get('merge_small_dims_block_size', 4096))
  return list(shape)


def axis_splits(d, b):
  """Sizes of the blocks an axis of length d is cut into."""
  if 0 < b < d:
    n = (d - 1) // b
    return [b] * n + [d - n * b]
  return [d]


def block_grid(tshape, b):
  """List of (slices, block_shape) in row-major block order."""
  per_axis = []
  for d in tshape:
    sizes = axis_splits(d, b)
    offs, o = [], 0
    for s in sizes:
      offs.append((o, o + s))
      o += s
    per_axis.append(offs)
  blocks = []
  for combo in itertools.product(*per_axis):
    sl = tuple(slice(a, c) for a, c in combo)
    blocks.append((sl, tuple(c - a for a, c in combo)))
  return blocks


def precond_axes(rank, ptype):
  """Which axes of a rank-`rank` block carry a preconditioner."""
  if ptype == 1 or rank <= 1:
    return list(range(rank))
  if ptype == 2:
    return list(range(rank - 1))
  return [rank - 1]


def skipped(shape, cfg):
  return (len(shape) < cfg.get('skip_preconditioning_rank_lt', 1) or
          any(s > cfg.get('skip_preconditioning_dim_size_gt', 4096)
              for s in shape))


def leaf_layout(shape, cfg):
  """Everything the model needs about one leaf."""
  tshape = transformed_shape(shape, cfg)
  blocks = block_grid(tshape, cfg.get('block_size', 4))
  rank = len(tshape)
  axes = precond_axes(rank, cfg.get('precondtioner_type', 1))
  skip = skipped(shape, cfg)
  stats = []  # (block index, axis, dim)
  if not skip:
    for bi, (_, bshape) in enumerate(blocks):
      for ax in axes:
        stats.append((bi, ax, bshape[ax]))
  exponent = cfg.get('exponent_override', 0) or 2 * len(axes)
  return dict(shape=tuple(shape), tshape=tuple(tshape), blocks=blocks,
              axes=axes, skip=skip, stats=stats, exponent=exponent, rank=rank)


def tree_layout(shapes, cfg):
  leaves = [leaf_layout(s, cfg) for s in shapes]
  sizes = [d for l in leaves for (_, _, d) in l['stats']]
  return dict(leaves=leaves, n_stats=len(sizes), sizes=sizes,
              max_size=max(sizes) if sizes else 0)


def precond_dim(compression_rank, dim):
  if not compression_rank:
    return dim
  c = abs(compression_rank) + 2
  return dim if c >= dim else c
