"""Float64 one-step reference model of Distributed Shampoo (DESIGN appendix A).

Written from the docstrings and the paper; shares no code with the repo. The
model never computes inverse roots: it is handed the roots the implementation
stores (checked separately by the root oracle) and predicts everything else.
"""
import numpy as np

from sim.refmodel import shapes as shp

EPS = 1e-25


def lr_value(spec, t):
  """Value of the (stub) learning-rate schedule at clock t. Schedules are
  float32-valued (see ds_world.make_lr); constants are python floats."""
  k = spec['kind']
  if k == 'const':
    return float(spec['v'])
  f = np.float32
  v = f(spec['v'])
  if k == 'linear':
    x = f(1.0) - f(t) / f(spec['T'])
    return float(v * max(f(spec.get('floor', 0.0)), x))
  if k == 'halving':
    return float(v * f(0.5) ** f(t // int(spec['every'])))
  raise ValueError(k)


def interval_at(cfg, lr_spec, t):
  """(p_t, dont_care) - the preconditioner interval in force at clock t."""
  p = cfg.get('preconditioning_compute_steps', 1)
  end = cfg.get('end_preconditioning_compute_steps')
  if (cfg.get('decay_preconditioning_compute_steps') and end and
      lr_spec['kind'] != 'const'):
    l0 = lr_value(lr_spec, 0)
    ratio = lr_value(lr_spec, t) / l0 if l0 else float('nan')
    raw = p + (1.0 - ratio) * end
    q = raw / 10.0
    dont_care = (not np.isfinite(raw)) or abs(q - round(q)) < 1e-4
    if not np.isfinite(raw):
      return 1, True
    return max(int(raw // 10) * 10, 1), dont_care
  return p, False


def stats_tick(cfg, t):
  return t % cfg.get('statistics_compute_steps', 1) == 0


def precond_tick(cfg, lr_spec, t):
  p_t, dc = interval_at(cfg, lr_spec, t)
  return (t % p_t == 0), dc


def unfold_gram(g, axis):
  """G_axis G_axis^T for tensor g: contract every axis but `axis`."""
  m = np.moveaxis(g, axis, 0).reshape(g.shape[axis], -1)
  return m @ m.T


def new_statistics(cfg, layout, g, stats):
  """One statistics refresh for one leaf. stats: list of (d,d) float64."""
  b2 = cfg.get('beta2', 0.999)
  w2 = 1.0 if b2 == 1.0 else 1.0 - b2
  gt = np.asarray(g, np.float64).reshape(layout['tshape'])
  out = []
  k = 0
  for sl, _ in layout['blocks']:
    blk = gt[sl]
    for ax in layout['axes']:
      out.append(b2 * stats[k] + w2 * unfold_gram(blk, ax))
      k += 1
  return out


def apply_root(blk, ax, root, packed_rank=0):
  """Contract `root` (dense dxd, or packed d x (r+2)) along axis ax."""
  d = blk.shape[ax]
  if root.shape[0] == root.shape[1] or not packed_rank:
    dense = root
  else:
    dense = dense_from_packed(root, packed_rank)
    if dense is None:
      return blk
  return np.moveaxis(np.tensordot(dense, blk, axes=([0], [ax])), 0, ax)


def unpack(packed, r):
  """Field layout of the low-rank packed preconditioner, from the docstring of
  the packing pair: columns 0..r-1 eigvecs; column -2 rows 0..r-1 inverted
  eigenvalues, row -1 the has-zeros flag; column -1 row 0 const, row 1 tail,
  last r rows the deflated eigenvalues."""
  r = abs(r)
  V = packed[:, :r]
  inv = packed[:r, -2]
  const = packed[0, -1]
  tail = packed[1, -1]
  eig = packed[-r:, -1]
  flag = bool(packed[-1, -2])
  return V, eig, inv, const, tail, flag


def dense_from_packed(packed, r):
  V, _, inv, const, _, flag = unpack(np.asarray(packed, np.float64), r)
  if flag:
    return None
  d = packed.shape[0]
  return const * (np.eye(d) - V @ V.T) + (V * inv) @ V.T


def preconditioned(cfg, layout, g, roots):
  """pg: roots applied along every preconditioned axis of every block."""
  gt = np.asarray(g, np.float64).reshape(layout['tshape'])
  out = np.array(gt, copy=True)
  k = 0
  cr = cfg.get('compression_rank', 0)
  for sl, _ in layout['blocks']:
    blk = gt[sl]
    for ax in layout['axes']:
      root = np.asarray(roots[k], np.float64)
      blk = apply_root(blk, ax, root, cr)
      k += 1
    out[sl] = blk
  return out.reshape(layout['shape'])


def graft_step(cfg, g, diag):
  """Returns (gamma before lr, new diagonal accumulator)."""
  gt = cfg.get('graft_type', 1)
  g = np.asarray(g, np.float64)
  de = cfg.get('diagonal_epsilon', 1e-10)
  if gt in (0, 1):
    return g, diag
  if gt == 5:
    return np.sign(g), diag
  gh = g / (np.linalg.norm(g) + EPS) if gt in (4, 6) else g
  if gt in (2, 6):
    a = diag + gh * gh
    return gh / (np.sqrt(a) + de), a
  b2 = cfg.get('beta2', 0.999)
  w2 = 1.0 if b2 == 1.0 else 1.0 - b2
  a = b2 * diag + w2 * gh * gh
  q = gh / (np.sqrt(a) + de)
  clip = cfg.get('clip_by_scaled_gradient_norm')
  if clip:
    rms = np.linalg.norm(q) / np.sqrt(float(q.size))
    q = q / max(1.0, rms / clip)
  return q, a


def step_leaf(cfg, lr_spec, layout, t, g, theta, roots, st, active=None):
  """One tick for one leaf.

  st: dict(stats=[...], diag=array or None, mom=array, dmom=array) - the
      implementation's own previous state, as float64.
  roots: the roots to use for the direction (after the tick in replicated
      mode, before it in sharded mode) - taken from the implementation.
  Returns dict(update, stats, diag, mom, dmom, sigma, gamma, pg).
  """
  g = np.asarray(g, np.float64)
  theta = np.asarray(theta, np.float64)
  lr = lr_value(lr_spec, t)
  dec_lr = cfg.get('decoupled_learning_rate', True)
  b1 = cfg.get('beta1', 0.9)
  wd = cfg.get('weight_decay', 0.0)
  dec_wd = cfg.get('decoupled_weight_decay', False)

  stats = st['stats']
  if not layout['skip'] and stats_tick(cfg, t):
    stats = new_statistics(cfg, layout, g, stats)

  diag = st.get('diag')
  gamma, new_diag = graft_step(cfg, g, diag if diag is not None else 0.0)
  if not dec_lr:
    gamma = gamma * lr
  if layout['skip']:
    pg = gamma
  else:
    pg = preconditioned(cfg, layout, g, roots)
  if cfg.get('graft_type', 1) != 0:
    m = np.linalg.norm(gamma) / (np.linalg.norm(pg) + EPS)
  else:
    m = 1.0
  sigma = pg * m
  sig_wd, gam_wd = sigma, gamma
  if wd != 0 and not dec_wd:
    sig_wd = sigma + wd * theta
    gam_wd = gamma + wd * theta
  w = (1.0 - b1) if cfg.get('moving_average_for_momentum', False) else 1.0
  mom = b1 * st['mom'] + w * sig_wd
  dmom = b1 * st['dmom'] + w * gam_wd
  if active is None:
    active = t >= cfg.get('start_preconditioning_step', 5)
  m_sel = mom if active else dmom
  cur = sig_wd if active else gam_wd
  out = (w * cur + b1 * m_sel) if cfg.get('nesterov', True) else m_sel
  if wd != 0 and dec_wd:
    out = out + (1.0 if dec_lr else lr) * wd * theta
  upd = -(lr if dec_lr else 1.0) * out
  return dict(update=upd, stats=stats, diag=new_diag, mom=mom, dmom=dmom,
              sigma=sigma, gamma=gamma, pg=pg, active=active)
