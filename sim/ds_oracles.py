"""Per-tick oracles for Distributed Shampoo (single world)."""
import numpy as np

from sim import root_oracle
from sim.refmodel import ds as ref
from sim.refmodel import shapes as shp

U32 = 2.0 ** -24
C = 16.0


def _bytes_eq(a, b):
  if len(a) != len(b):
    return False
  for x, y in zip(a, b):
    if x is None or y is None:
      if x is not y:
        return False
      continue
    if x.dtype != y.dtype or x.shape != y.shape:
      return False
    if x.tobytes() != y.tobytes():
      return False
  return True


def _modekey(rec):
  w = rec['world']
  m = w.mode
  if rec['view'].quantized_second_moment(rec['new']):
    m += '_q'
  if w.cfg.get('compression_rank'):
    m += '_fd' if w.cfg.get('frequent_directions') else '_lr'
  return m


def _err(view, leaves, i, j):
  e = view.metric(leaves, i, 'inverse_pth_root_errors')
  if e is None:
    return None
  return float(np.asarray(e).reshape(-1)[j])


# ---------------------------------------------------------------- C04 cadence
def cadence(ctx, rec):
  w, view = rec['world'], rec['view']
  cfg, t = w.cfg, rec['t']
  prev, new = rec['prev'], rec['new']
  mk = _modekey(rec)
  st = ref.stats_tick(cfg, t)
  pt, dont_care = ref.precond_tick(cfg, w.lr_spec, t)
  if dont_care:
    ctx.probe('interval_dont_care')
  p_t, _ = ref.interval_at(cfg, w.lr_spec, t)
  if p_t != cfg.get('preconditioning_compute_steps', 1):
    ctx.probe('interval_schedule_changed_value')
  # every count leaf advances by exactly one
  for k in new:
    if k.endswith('.count') or k == '.count':
      a, b = prev[k], new[k]
      if not np.array_equal(np.asarray(b, np.int64), np.asarray(a, np.int64) + 1):
        ctx.violate('count', mk, 'not_plus_one', tick=t, leaf=k,
                    before=int(np.ravel(a)[0]), after=int(np.ravel(b)[0]))
        ctx.ev('count', 'violation')
      else:
        ctx.ev('count')
  from sim.ds_world import category
  for k in new:
    cat = category(k)
    same = (prev[k].dtype == new[k].dtype and prev[k].shape == new[k].shape
            and prev[k].tobytes() == new[k].tobytes())
    if cat == 'stat':
      if not st:
        ctx.ev('cadence_stats', 'ok' if same else 'violation')
        if not same:
          ctx.violate('cadence_stats', mk, 'changed_off_schedule', tick=t,
                      leaf=k, s=cfg.get('statistics_compute_steps', 1))
      elif not same:
        ctx.probe('stats_changed_on_tick')
    elif cat in ('precond', 'metrics'):
      if dont_care:
        ctx.ev('cadence_precond', 'vacuous')
        continue
      orc = 'cadence_precond' if cat == 'precond' else 'cadence_metrics'
      if not pt:
        ctx.ev(orc, 'ok' if same else 'violation')
        if not same:
          ctx.violate(orc, mk, 'changed_off_schedule', tick=t, leaf=k, p=p_t)
      elif not same:
        ctx.probe('precond_changed_on_tick' if cat == 'precond'
                  else 'metrics_changed_on_tick')
  ctx.state('cad', mk, t % max(cfg.get('statistics_compute_steps', 1), 1),
            t % max(p_t, 1), int(t >= cfg.get('start_preconditioning_step', 5)),
            rec['opkind'])


# ------------------------------------------------------------------ C03 gate
def gate(ctx, rec):
  w, view = rec['world'], rec['view']
  cfg, t = w.cfg, rec['t']
  prev, new = rec['prev'], rec['new']
  mk = _modekey(rec)
  thr = float(cfg.get('inverse_failure_threshold', 0.1))
  pt, dont_care = ref.precond_tick(cfg, w.lr_spec, t)
  have_metrics = cfg.get('generate_training_metrics', True)
  any_rej = any_acc = False
  for i, leaf in enumerate(view.layout['leaves']):
    for j in range(len(leaf['stats'])):
      a = view.precond_raw(prev, i, j)
      b = view.precond_raw(new, i, j)
      same = _bytes_eq(a, b)
      finite = all(np.all(np.isfinite(np.asarray(x, np.float64))) for x in b)
      if not finite:
        ctx.violate('gate_finite', mk, 'nonfinite_preconditioner', tick=t,
                    leaf=i, stat=j, poisoned=i in rec['poisoned'])
        ctx.ev('gate_finite', 'violation')
      else:
        ctx.ev('gate_finite')
      err = _err(view, new, i, j) if have_metrics else None
      if pt and not dont_care and i not in rec['poisoned'] and err is not None:
        # bounded progress (probe, not an oracle): healthy leaves keep getting
        # fresh roots while other leaves are poisoned / after faults stopped
        ctx.probe('refresh_evaluations_on_healthy_leaves')
        if np.isfinite(err) and err < thr:
          ctx.probe('refresh_accepted_on_healthy_leaves')
      if same:
        ctx.ev('gate')
        if pt and err is not None and (np.isnan(err) or err >= thr):
          any_rej = True
          ctx.probe('root_rejected')
          if i in rec['poisoned_now']:
            ctx.probe('root_rejected_on_fault_tick')
        continue
      # bytes changed: must be an accepted root on a refresh tick
      if not pt and not dont_care:
        ctx.violate('gate', mk, 'replaced_off_refresh', tick=t, leaf=i, stat=j)
        ctx.ev('gate', 'violation')
        continue
      if err is not None:
        if not (np.isfinite(err) and err < thr):
          ctx.violate('gate', mk, 'replaced_by_rejected_root', tick=t, leaf=i,
                      stat=j, err=repr(err), thr=thr)
          ctx.ev('gate', 'violation')
          continue
      any_acc = True
      ctx.ev('gate')
      ctx.probe('root_accepted')
      # quantized triple must be self-consistent (all-or-nothing replacement)
      if len(b) == 3:
        q, d, bs = b
        nb = 32767.0 if q.dtype == np.int16 else 127.0
        colmax = np.max(np.abs(q.astype(np.float64)), axis=0) if q.size else 0
        bad = (np.asarray(bs) > 0) & (colmax != nb)
        if np.any(bad):
          ctx.violate('gate', mk, 'quantized_triple_inconsistent', tick=t,
                      leaf=i, stat=j)
          ctx.ev('gate_triple', 'violation')
        else:
          ctx.ev('gate_triple')
  if pt and any_rej and not any_acc and view.n_stats:
    ctx.probe('all_roots_rejected')
  if pt and rec['poisoned_now']:
    ctx.probe('refresh_on_fault_tick')
  # sharded padding slices: may only change on refresh ticks, must stay finite
  if view.sharded:
    gp0 = prev['.stats.global_stats.preconditioners']
    gp1 = new['.stats.global_stats.preconditioners']
    for s in range(view.n_stats, gp1.shape[0]):
      ctx.probe('padding_statistic')
      if not np.all(np.isfinite(gp1[s])):
        ctx.violate('gate_finite', mk, 'nonfinite_padding_slice', tick=t,
                    slice=s)
      if gp0[s].tobytes() != gp1[s].tobytes() and not pt and not dont_care:
        ctx.violate('gate', mk, 'padding_replaced_off_refresh', tick=t, slice=s)
  # (c) finite update for unpoisoned leaves
  for i, u in enumerate(rec['updates']):
    if i in rec['poisoned']:
      ctx.ev('update_finite', 'muted')
      continue
    ok = bool(np.all(np.isfinite(u)))
    ctx.ev('update_finite', 'ok' if ok else 'violation')
    if not ok:
      ctx.violate('update_finite', mk, 'nonfinite_update_moderate_grad',
                  tick=t, leaf=i)
  # (d) threshold 0: everything is rejected, preconditioners never move
  if thr == 0.0:
    init = rec['init_leaves']
    for i, leaf in enumerate(view.layout['leaves']):
      for j in range(len(leaf['stats'])):
        if not _bytes_eq(view.precond_raw(init, i, j),
                         view.precond_raw(new, i, j)):
          ctx.violate('identity_degradation', mk, 'moved_with_threshold_0',
                      tick=t, leaf=i, stat=j)
          ctx.ev('identity_degradation', 'violation')
        else:
          ctx.ev('identity_degradation')
  health = ''.join('P' if i in rec['poisoned'] else 'h'
                   for i in range(len(rec['updates'])))
  ctx.state('gate', mk, int(pt), health, int(any_rej), int(any_acc),
            rec['opkind'])


# ----------------------------------------------------------- C01 roots in situ
def _method(cfg):
  if cfg.get('compression_rank'):
    return 'lowrank'
  if cfg.get('lobpcg_topk_precondition', 0):
    return 'lobpcg'
  return 'eigh' if cfg.get('eigh') else 'newton'


def roots(ctx, rec, only_refresh=True):
  """Root oracle on every root installed at this tick: every accepted root on
  a refresh tick, and every preconditioner whose bytes changed on any tick
  (whatever is stored must be an inverse root of the stored statistics)."""
  w, view = rec['world'], rec['view']
  cfg, t = w.cfg, rec['t']
  prev, new = rec['prev'], rec['new']
  mk = _modekey(rec)
  pt, dont_care = ref.precond_tick(cfg, w.lr_spec, t)
  if dont_care:
    return
  method = _method(cfg)
  if method == 'lowrank':
    return
  lobpcg = method == 'lobpcg'
  if lobpcg:
    # the reported error refers to the unconditioned problem A + d I with
    # d = eps * max(lambda_hat, 1e-25): same oracle as Newton, no retry factor
    method = 'newton'
    ctx.probe('lobpcg_root_seen')
  thr = float(cfg.get('inverse_failure_threshold', 0.1))
  eps = float(cfg.get('matrix_epsilon', 1e-6))
  rel = bool(cfg.get('relative_matrix_epsilon', True))
  quant = view.quantized_second_moment(new)
  for i, leaf in enumerate(view.layout['leaves']):
    p = leaf['exponent']
    for j, (_, _, d) in enumerate(leaf['stats']):
      err = _err(view, new, i, j)
      if err is None or not (np.isfinite(err) and err < thr):
        continue
      changed = not _bytes_eq(view.precond_raw(prev, i, j),
                              view.precond_raw(new, i, j))
      if not pt and not changed:
        continue
      if not pt:
        ctx.probe('root_changed_off_refresh')
      S = view.stat(new, i, j)
      X = view.precond(new, i, j)
      lam = retries = None
      if method == 'newton':
        lh = view.metric(new, i, 'max_eigen_value')
        rt = view.metric(new, i, 'total_retries')
        if lh is not None:
          lam = float(np.ravel(lh)[j])
          retries = float(np.ravel(rt)[j])
          if retries > 1:
            ctx.probe('root_retry_gt1')
      if view.layout['max_size'] == 1 or lobpcg:
        retries = None
      u = U32 if not quant else 2.0 ** -15
      x64 = bool(w.plan.get('x64', True))
      status, ratio, detail = root_oracle.check_root(
          S, X, p, err, eps, rel, method, lam, retries, u=u,
          u_compute=(2.0 ** -53 if x64 else U32))
      pred = 'on_refresh_tick' if pt else 'installed_off_refresh'
      if i in rec['poisoned']:
        pred = 'nonfinite_or_offrange_history'
      ctx.ev('root_residual', status, ratio)
      if status == 'violation':
        ctx.violate('root_residual', mk + '_' + method, pred, tick=t, leaf=i,
                    stat=j, p=p, n=d, detail=detail)
      if status == 'ok' and d > 1:
        ctx.probe('root_checked_nontrivial')
      # lambda-hat never exceeds lambda_max (relative ridge, Newton reports it)
      if method == 'newton' and rel and lam is not None and np.all(
          np.isfinite(S)) and view.layout['max_size'] > 1:
        lmax = float(np.max(np.linalg.eigvalsh(0.5 * (S + S.T))))
        tol = 1e-6 * max(lmax, 0.0) + 1e-30
        if np.isfinite(lam) and lam > lmax + tol + 1e-6 * abs(lam):
          ctx.violate('lambda_bound', mk, 'lambda_hat_above_lambda_max',
                      tick=t, leaf=i, stat=j, lam_hat=lam, lam_max=lmax)
          ctx.ev('lambda_bound', 'violation')
        else:
          ctx.ev('lambda_bound', 'ok',
                 (lam / lmax) if lmax > 0 and np.isfinite(lam) else None)
      # sharded stack: padding rows/columns of an installed root are zero
      if view.sharded and not cfg.get('compression_rank'):
        full = view.precond(new, i, j, padded=True)
        if d < full.shape[0]:
          ctx.probe('padded_root_checked')
          if np.any(full[d:, :] != 0) or np.any(full[:, d:] != 0):
            ctx.violate('root_padding', mk, 'nonzero_padding', tick=t, leaf=i,
                        stat=j)
            ctx.ev('root_padding', 'violation')
          else:
            ctx.ev('root_padding')


# ----------------------------------------------------- C02 one-step refinement
def _amp(cfg, layout, g, roots_):
  """First-order float32 forward error bound of the preconditioned gradient."""
  gt = np.asarray(g, np.float64).reshape(layout['tshape'])
  tot = 0.0
  k = 0
  cr = cfg.get('compression_rank', 0)
  for sl, bshape in layout['blocks']:
    blk = gt[sl]
    a = float(np.linalg.norm(blk))
    for ax in layout['axes']:
      r = np.asarray(roots_[k], np.float64)
      if r.shape[0] != r.shape[1] and cr:
        dn = ref.dense_from_packed(r, cr)
        # the packed application path (project, complement, rescale) has about
        # four times the rounding of a single matrix product
        nr = 1.0 if dn is None else 4.0 * float(np.linalg.norm(dn, 2))
      else:
        nr = float(np.linalg.norm(r, 2)) if r.size else 1.0
      a *= max(nr, 1e-300)
      k += 1
    tot += a * (sum(bshape) + 4)
  return C * U32 * tot


def _max_intermediate(cfg, layout, g, roots_):
  """Largest magnitude reached while applying the roots axis by axis."""
  gt = np.asarray(g, np.float64).reshape(layout['tshape'])
  mx = 0.0
  k = 0
  cr = cfg.get('compression_rank', 0)
  for sl, _ in layout['blocks']:
    blk = gt[sl]
    for ax in layout['axes']:
      blk = ref.apply_root(blk, ax, np.asarray(roots_[k], np.float64), cr)
      if blk.size:
        mx = max(mx, float(np.max(np.abs(blk))))
      k += 1
  return mx


def _cmp(ctx, oracle, mk, t, i, impl, model, tol, what, pred='step'):
  impl = np.asarray(impl, np.float64)
  model = np.asarray(model, np.float64)
  if impl.shape != model.shape:
    ctx.violate(oracle, mk, 'shape_mismatch', tick=t, leaf=i, what=what,
                impl=list(impl.shape), model=list(model.shape))
    ctx.ev(oracle, 'violation')
    return False
  if impl.size == 0:
    ctx.ev(oracle)
    return True
  if not np.all(np.isfinite(model)):
    ctx.ev(oracle, 'vacuous')
    return True
  scale = float(np.max(np.abs(model)))
  if tol > 0.05 * max(scale, 1e-300) and tol > 1e-30:
    ctx.ev(oracle, 'vacuous')
    return True
  with np.errstate(invalid='ignore'):
    diff = float(np.max(np.abs(impl - model))) if np.all(
        np.isfinite(impl)) else float('inf')
  ratio = diff / tol if tol > 0 else (0.0 if diff == 0 else float('inf'))
  if diff > tol:
    ctx.violate(oracle, mk, pred, tick=t, leaf=i, what=what, diff=diff,
                tol=tol, scale=scale)
    ctx.ev(oracle, 'violation')
    return False
  ctx.ev(oracle, 'ok', ratio)
  return True


def refine(ctx, rec, oracles=('step_update', 'step_stats', 'step_momentum',
                              'step_graft_acc')):
  w, view = rec['world'], rec['view']
  cfg, t = w.cfg, rec['t']
  prev, new = rec['prev'], rec['new']
  mk = _modekey(rec)
  quant_mom = cfg.get('best_effort_memory_usage_reduction', False)
  quant2 = view.quantized_second_moment(new)
  out = {}
  for i, leaf in enumerate(view.layout['leaves']):
    if i in rec['poisoned']:
      for o in oracles:
        ctx.ev(o, 'muted')
      continue
    g = rec['grads'][i]
    ms = view.model_state(prev, i)
    rts = view.roots(prev if view.sharded else new, i)
    r = ref.step_leaf(cfg, w.lr_spec, leaf, t, g, rec['params'][i], rts, ms)
    out[i] = r
    ns = view.model_state(new, i)
    u32 = C * U32
    # statistics
    if 'step_stats' in oracles and not leaf['skip']:
      fd = cfg.get('frequent_directions', False)
      for j, (a, b) in enumerate(zip(ns['stats'], r['stats'])):
        if fd and shp.precond_dim(cfg.get('compression_rank', 0),
                                  leaf['stats'][j][2]) != leaf['stats'][j][2]:
          ctx.ev('step_stats', 'vacuous')  # FD keeps a gradient factor here
          continue
        bi, ax, d = leaf['stats'][j]
        m = max(int(np.prod(leaf['blocks'][bi][1])) // max(d, 1), 1)
        tol = u32 * (m + 4) * (float(np.max(np.abs(b))) + 1e-300)
        if quant2:
          off = b - np.diag(np.diag(b))
          tol += float(np.max(np.abs(off))) / 32767.0 * 0.51 + \
              float(np.max(np.abs(ms['stats'][j]))) / 32767.0 * 0.51
        _cmp(ctx, 'step_stats' + ('_q' if quant2 else ''), mk, t, i, a, b, tol,
             f'statistics[{j}]')
    # graft accumulator
    if 'step_graft_acc' in oracles and ns['diag'] is not None and \
        np.ndim(r['diag']) > 0:
      tol = u32 * (float(np.max(np.abs(r['diag']))) + 1e-300)
      _cmp(ctx, 'step_graft_acc', mk, t, i, ns['diag'], r['diag'], tol,
           'diagonal_statistics')
    # tolerances for quantities downstream of the preconditioned gradient
    amp = 0.0 if leaf['skip'] else _amp(cfg, leaf, g, rts)
    npg = float(np.linalg.norm(r['pg']))
    # float32 range: the implementation's norm of the preconditioned gradient
    # overflows / underflows (squares of entries below 1e-19 are flushed to
    # zero) where the float64 model does not
    f32_range_bad = (not leaf['skip']) and r['pg'].size and (
        npg * npg > 1e37 or (0 < npg * npg < 1e-30) or
        _max_intermediate(cfg, leaf, g, rts) > 1e37)
    ngam = float(np.linalg.norm(r['gamma']))
    mult = ngam / (npg + ref.EPS) if cfg.get('graft_type', 1) != 0 else 1.0
    tol_sigma = 2.0 * mult * amp + u32 * (1.0 + np.sqrt(max(int(np.size(g)), 1))
                                          / 8.0) * (
        float(np.max(np.abs(r['sigma']))) if r['sigma'].size else 0.0)
    wd_term = abs(cfg.get('weight_decay', 0.0)) * (
        float(np.max(np.abs(rec['params'][i]))) if np.size(rec['params'][i])
        else 0.0)
    base = u32 * (float(np.max(np.abs(ms['mom']))) if np.size(ms['mom']) else 0.0)
    tol_mom = tol_sigma + base + u32 * wd_term
    nfac = 1.0 + np.sqrt(max(int(np.size(g)), 1)) / 8.0
    tol_dmom = u32 * ((float(np.max(np.abs(ms['dmom']))) if np.size(ms['dmom'])
                       else 0.0) + nfac * (float(np.max(np.abs(r['gamma'])))
                                           if r['gamma'].size else 0.0) + wd_term)
    if f32_range_bad:
      ctx.probe('f32_range_exceeded')
      for o in ('step_momentum', 'step_update'):
        if o in oracles:
          ctx.ev(o, 'vacuous')
      continue
    if 'step_momentum' in oracles:
      tm, td = tol_mom, tol_dmom
      if quant_mom and len(leaf['shape']) > 1:
        tm += 0.51 * float(np.max(np.abs(r['mom']))) / 127.0
        td += 0.51 * float(np.max(np.abs(r['dmom']))) / 127.0
      qn = '_q' if (quant_mom and len(leaf['shape']) > 1) else ''
      _cmp(ctx, 'step_momentum' + qn, mk, t, i, ns['mom'], r['mom'], tm,
           'momentum')
      _cmp(ctx, 'step_momentum' + qn, mk, t, i, ns['dmom'], r['dmom'], td,
           'diagonal_momentum')
    if 'step_update' in oracles:
      lr = abs(ref.lr_value(w.lr_spec, t)) if cfg.get(
          'decoupled_learning_rate', True) else 1.0
      tol_u = lr * (2.0 * (tol_mom if r['active'] else tol_dmom) +
                    u32 * wd_term) + u32 * (
                        float(np.max(np.abs(r['update'])))
                        if r['update'].size else 0.0)
      _cmp(ctx, 'step_update', mk, t, i, rec['updates'][i], r['update'], tol_u,
           'update')
  rec['model'] = out
  ctx.state('ref', mk, cfg.get('graft_type', 1), int(cfg.get('nesterov', True)),
            int(t >= cfg.get('start_preconditioning_step', 5)),
            int(ref.stats_tick(cfg, t)))
  return out


# ----------------------------------------------------------- C04 warm-up branch
def warmup(ctx, rec):
  """The update must come from the branch the clock selects: graft momentum
  before the start step, preconditioned momentum from it on."""
  w, view = rec['world'], rec['view']
  cfg, t = w.cfg, rec['t']
  prev, new = rec['prev'], rec['new']
  mk = _modekey(rec)
  S = cfg.get('start_preconditioning_step', 5)
  for i, leaf in enumerate(view.layout['leaves']):
    if i in rec['poisoned'] or leaf['skip']:
      ctx.ev('warmup', 'muted')
      continue
    g = rec['grads'][i]
    ms = view.model_state(prev, i)
    rts = view.roots(prev if view.sharded else new, i)
    right = ref.step_leaf(cfg, w.lr_spec, leaf, t, g, rec['params'][i], rts,
                          ms, active=(t >= S))
    wrong = ref.step_leaf(cfg, w.lr_spec, leaf, t, g, rec['params'][i], rts,
                          ms, active=not (t >= S))
    u = np.asarray(rec['updates'][i], np.float64)
    if not (np.all(np.isfinite(right['update'])) and
            np.all(np.isfinite(wrong['update'])) and np.all(np.isfinite(u))):
      ctx.ev('warmup', 'vacuous')
      continue
    sc = float(np.max(np.abs(right['update']))) + float(
        np.max(np.abs(wrong['update']))) + 1e-300
    sep = float(np.max(np.abs(right['update'] - wrong['update']))) / sc
    if sep < 1e-3:
      ctx.ev('warmup', 'vacuous')
      continue
    dr = float(np.max(np.abs(u - right['update'])))
    dw = float(np.max(np.abs(u - wrong['update'])))
    if dw < dr and dw < 0.05 * sep * sc:
      ctx.violate('warmup', mk, 'wrong_branch_at_boundary' if abs(t - S) <= 1
                  else 'wrong_branch', tick=t, leaf=i, start=S)
      ctx.ev('warmup', 'violation')
    else:
      ctx.ev('warmup')
      if abs(t - S) <= 1:
        ctx.probe('warmup_boundary_discriminated')


# ------------------------------------------------------------- C05 grafting
def graft(ctx, rec):
  """beta1 = 0 and no weight decay: the update is the pre-momentum update.
  From the start step on: norm of the graft step, direction of the
  preconditioned gradient; before it / for skipped leaves: the graft step."""
  w, view = rec['world'], rec['view']
  cfg, t = w.cfg, rec['t']
  prev, new = rec['prev'], rec['new']
  mk = _modekey(rec)
  if cfg.get('beta1', 0.9) != 0.0 or cfg.get('weight_decay', 0.0) != 0.0:
    return
  S = cfg.get('start_preconditioning_step', 5)
  gt = cfg.get('graft_type', 1)
  lr = ref.lr_value(w.lr_spec, t)
  dec = cfg.get('decoupled_learning_rate', True)
  free = ctx.__dict__.setdefault('_graft_free', {})
  for i, leaf in enumerate(view.layout['leaves']):
    g = np.asarray(rec['grads'][i], np.float64)
    if i in rec['poisoned']:
      for o in ('graft_norm', 'graft_dir', 'warmup_graft'):
        ctx.ev(o, 'muted')
      free.pop(i, None)
      continue
    ms = view.model_state(prev, i)
    gamma, _ = ref.graft_step(cfg, g, ms['diag'] if ms['diag'] is not None
                              else 0.0)
    # free-running accumulator from the gradient history (loose tolerance):
    # catches an accumulator that is returned but not threaded
    if gt in (2, 3, 4, 6) and rec['opkind'] == 'STEP' and not rec.get('rebase'):
      acc = free.get(i)
      if acc is not None and ms['diag'] is not None and np.ndim(ms['diag']):
        d = float(np.max(np.abs(acc - ms['diag'])))
        sc = float(np.max(np.abs(acc))) + 1e-300
        ok = d <= 1e-3 * sc
        ctx.ev('graft_acc_history', 'ok' if ok else 'violation')
        if not ok:
          ctx.violate('graft_acc_history', mk, 'accumulator_not_threaded',
                      tick=t, leaf=i, diff=d, scale=sc)
      _, acc_new = ref.graft_step(cfg, g, acc if acc is not None else (
          ms['diag'] if ms['diag'] is not None and np.ndim(ms['diag'])
          else np.zeros_like(g)))
      free[i] = acc_new
    else:
      free.pop(i, None)
    eff = gamma * (lr if not dec else 1.0)      # what enters the norm
    scale_out = lr if dec else 1.0              # applied after momentum
    u = np.asarray(rec['updates'][i], np.float64)
    if u.size == 0:
      continue
    ng = float(np.linalg.norm(eff))
    active = t >= S and not leaf['skip']
    if not active:
      want = -scale_out * eff
      # norms / rms of n entries are accumulated in float32
      tol = (C + 2.0 * np.sqrt(want.size)) * U32 * (
          float(np.max(np.abs(want))) + 1e-300)
      ok = float(np.max(np.abs(u - want))) <= tol
      ctx.ev('warmup_graft', 'ok' if ok else 'violation')
      if not ok:
        ctx.violate('warmup_graft', mk,
                    'skipped_leaf' if leaf['skip'] else 'before_start_step',
                    tick=t, leaf=i, diff=float(np.max(np.abs(u - want))),
                    tol=tol)
      continue
    rts = view.roots(prev if view.sharded else new, i)
    pg = ref.preconditioned(cfg, leaf, g, rts)
    npg = float(np.linalg.norm(pg))
    nu = float(np.linalg.norm(u))
    if not np.isfinite(npg) or not np.isfinite(nu):
      ctx.ev('graft_norm', 'vacuous')
      continue
    # float32 range (same guard as the one-step refinement): the
    # implementation's squared norm of the preconditioned gradient, or an
    # intermediate of the root application, overflows / underflows where the
    # float64 model is finite, and the grafting multiplier becomes 0 or inf
    if pg.size and (npg * npg > 1e37 or (0 < npg * npg < 1e-30) or
                    _max_intermediate(cfg, leaf, g, rts) > 1e37):
      ctx.probe('f32_range_exceeded')
      ctx.ev('graft_norm', 'vacuous')
      ctx.ev('graft_dir', 'vacuous')
      continue
    if gt == 0:
      # no grafting: the step is the preconditioned gradient itself
      want = -scale_out * pg
      amp = _amp(cfg, leaf, g, rts)
      tol = abs(scale_out) * (amp + C * U32 * float(np.max(np.abs(pg))) + 1e-300)
      if tol > 0.05 * abs(scale_out) * (float(np.max(np.abs(pg))) + 1e-300):
        ctx.ev('graft_dir', 'vacuous')
        continue
      ok = float(np.max(np.abs(u - want))) <= tol
      ctx.ev('graft_dir', 'ok' if ok else 'violation')
      if not ok:
        ctx.violate('graft_dir', mk, 'graft_none_not_preconditioned_grad',
                    tick=t, leaf=i)
      continue
    amp = _amp(cfg, leaf, g, rts)
    if npg <= 10 * amp or npg < 1e-15:
      # preconditioned gradient is (numerically) zero: update must be ~0 or
      # carry the graft norm; direction undefined
      ctx.ev('graft_norm', 'vacuous')
      ctx.ev('graft_dir', 'vacuous')
      if npg == 0.0 and nu != 0.0:
        ctx.violate('graft_norm', mk, 'nonzero_update_for_zero_direction',
                    tick=t, leaf=i)
      continue
    want_norm = abs(scale_out) * ng * (npg / (npg + ref.EPS))
    reln = 1e-5 + 4 * amp / npg
    ok = abs(nu - want_norm) <= reln * max(want_norm, 1e-300) + 1e-38
    ctx.ev('graft_norm', 'ok' if ok else 'violation',
           abs(nu - want_norm) / (reln * max(want_norm, 1e-300) + 1e-38))
    if not ok:
      ctx.violate('graft_norm', mk, 'norm_not_transplanted', tick=t, leaf=i,
                  got=nu, want=want_norm, graft=gt)
    if nu > 0 and want_norm > 0:
      dirn = float(np.linalg.norm(u / nu + np.sign(scale_out) * pg / npg))
      told = 1e-5 + 4 * amp / npg
      if told > 0.05:
        ctx.ev('graft_dir', 'vacuous')
      else:
        ok = dirn <= told
        ctx.ev('graft_dir', 'ok' if ok else 'violation', dirn / told)
        if not ok:
          ctx.violate('graft_dir', mk, 'direction_not_preconditioned_grad',
                      tick=t, leaf=i, angle=dirn, tol=told)
  ctx.state('graft', mk, gt, int(t >= S), int(dec), rec['opkind'])


# ------------------------------------------- C01 reached statistics in float64
_ROOT64_CACHE = {}


def roots64(ctx, rec, max_per_run=3):
  """The statistics reached by the simulated run are handed (as float64) to
  the very routine the optimizer calls; the float64 result is checked with the
  residual oracle at float64 resolution. Needs jax_enable_x64; sampled."""
  import jax
  import jax.numpy as jnp
  from precondition import distributed_shampoo as dsm
  w, view = rec['world'], rec['view']
  cfg, t = w.cfg, rec['t']
  if not w.plan.get('x64', True):
    return
  pt, dc = ref.precond_tick(cfg, w.lr_spec, t)
  if not pt or dc:
    return
  method = _method(cfg)
  if method in ('lowrank',):
    return
  done = ctx.__dict__.setdefault('_roots64_done', 0)
  if done >= max_per_run:
    return
  eps = float(cfg.get('matrix_epsilon', 1e-6))
  rel = bool(cfg.get('relative_matrix_epsilon', True))
  eigh = bool(cfg.get('eigh', False))
  lob = int(cfg.get('lobpcg_topk_precondition', 0))
  mk = _modekey(rec) + '_f64'
  for i, leaf in enumerate(view.layout['leaves']):
    if i in rec['poisoned']:
      continue
    p = leaf['exponent']
    for j, (_, _, d) in enumerate(leaf['stats']):
      if ctx._roots64_done >= max_per_run:
        return
      if d < 2 or (lob and d <= 5 * lob):
        continue
      S = view.stat(rec['new'], i, j)
      if not np.all(np.isfinite(S)):
        continue
      key = (d, eigh, eps, rel, lob)
      fn = _ROOT64_CACHE.get(key)
      if fn is None:
        fn = jax.jit(lambda m, pp: dsm.matrix_inverse_pth_root(
            m, pp, ridge_epsilon=eps, relative_matrix_epsilon=rel,
            lobpcg_topk_precondition=lob, eigh=eigh))
        _ROOT64_CACHE[key] = fn
      X, met = fn(jnp.asarray(S, jnp.float64), jnp.asarray(p, jnp.int32))
      X = np.asarray(X, np.float64)
      err = float(met.inverse_pth_root_errors)
      ctx._roots64_done += 1
      ctx.probe('root64_called')
      if not (np.isfinite(err) and err < float(cfg.get(
          'inverse_failure_threshold', 0.1))):
        ctx.ev('root64_residual', 'vacuous')
        continue
      lam = retries = None
      meth = 'eigh' if eigh else 'newton'
      if not eigh:
        lam = float(met.max_eigen_value)
        retries = None if lob else float(met.total_retries)
      status, ratio, detail = root_oracle.check_root(
          S, X, p, err, eps, rel, meth, lam, retries, u=2.0 ** -53,
          k=2000.0, lam_window=2.0 ** -22)
      ctx.ev('root64_residual', status, ratio)
      if status == 'violation':
        ctx.violate('root_residual', mk + '_' + method,
                    'reached_statistic_in_float64', tick=t, leaf=i, stat=j, p=p,
                    n=d, detail=detail)
