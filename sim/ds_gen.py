"""Seeded generators for Distributed Shampoo plans (pure python).

Every choice comes from the rng handed in. `emph` biases the swarm towards
what a property needs; the space itself is the same for every property.
"""
from sim.grads import FAULT_KINDS
from sim.refmodel import shapes as shp
from sim.util import pick, wpick


def gen_shape(rng, max_elems=400, allow_rank0=True, max_rank=4):
  rank = wpick(rng, [(0, 1 if allow_rank0 else 0), (1, 3), (2, 8), (3, 3),
                     (4, 1 if max_rank >= 4 else 0)])
  for _ in range(50):
    dims = []
    for _ in range(rank):
      dims.append(wpick(rng, [(1, 2), (2, 2), (3, 2), (4, 3), (5, 2), (6, 2),
                              (7, 1), (8, 3), (9, 1), (10, 1)]))
    n = 1
    for d in dims:
      n *= d
    if n <= max_elems:
      return dims
  return [2] * rank


def gen_tree(rng, n_leaves=None, **kw):
  n = n_leaves or wpick(rng, [(1, 3), (2, 4), (3, 3), (4, 1)])
  return [gen_shape(rng, **kw) for _ in range(n)]


def gen_lr(rng, scheduled=False):
  v = pick(rng, [1.0, 0.5, 0.1, 0.01])
  if scheduled or rng.random() < 0.25:
    if rng.random() < 0.6:
      return {'kind': 'linear', 'v': v, 'T': pick(rng, [16, 32, 64]),
              'floor': pick(rng, [0.0, 0.25])}
    return {'kind': 'halving', 'v': v, 'every': pick(rng, [2, 3, 5])}
  return {'kind': 'const', 'v': v}


def gen_config(rng, emph=None):
  """Returns a config dict (only non-default fields need be present)."""
  emph = emph or {}
  c = {}
  c['block_size'] = wpick(rng, [(2, 2), (3, 3), (4, 4), (5, 2), (8, 2),
                                (16, 1)])
  c['beta1'] = emph.get('beta1', pick(rng, [0.0, 0.5, 0.9]))
  c['beta2'] = pick(rng, [1.0, 0.999, 0.9, 0.5])
  c['matrix_epsilon'] = wpick(rng, emph.get(
      'eps', [(1e-1, 2), (1e-2, 2), (1e-3, 3), (1e-6, 4), (1e-12, 2), (0.0, 1)]))
  c['start_preconditioning_step'] = wpick(
      rng, [(0, 3), (1, 2), (2, 2), (3, 1), (5, 1), (6, 1)])
  c['preconditioning_compute_steps'] = wpick(
      rng, emph.get('p', [(1, 4), (2, 2), (3, 2), (4, 1), (5, 1)]))
  c['statistics_compute_steps'] = wpick(
      rng, emph.get('s', [(1, 4), (2, 2), (3, 1)]))
  c['graft_type'] = emph.get('graft', rng.randrange(7))
  c['nesterov'] = rng.random() < 0.5
  c['moving_average_for_momentum'] = rng.random() < 0.4
  c['weight_decay'] = emph.get('wd', pick(rng, [0.0, 0.0, 0.01, 0.1]))
  c['decoupled_weight_decay'] = rng.random() < 0.5
  c['decoupled_learning_rate'] = rng.random() < 0.6
  c['exponent_override'] = wpick(
      rng, [(0, 6), (1, 1), (2, 1), (3, 1), (5, 1), (8, 1)])
  c['inverse_failure_threshold'] = wpick(rng, emph.get(
      'thr', [(0.1, 8), (0.01, 1), (0.7, 1), (0.003, 1), (0.2, 1), (0.0, 1),
              (1e-30, 1), (1e30, 1)]))
  c['relative_matrix_epsilon'] = rng.random() < 0.7
  c['eigh'] = rng.random() < emph.get('eigh', 0.4)
  if rng.random() < 0.5:
    c['merge_small_dims_block_size'] = pick(rng, [4, 8, 16, 64])
  if rng.random() < 0.15:
    c['best_effort_shape_interpretation'] = False
  if rng.random() < 0.15:
    c['skip_preconditioning_dim_size_gt'] = pick(rng, [5, 7])
  if rng.random() < 0.2:
    c['skip_preconditioning_rank_lt'] = 2
  pt = wpick(rng, emph.get('ptype', [(1, 6), (2, 1), (3, 1)]))
  c['precondtioner_type'] = pt
  if pt == 2:
    # INPUT on an effective rank-1 leaf hits a bare assertion (C07 finding);
    # every other property stays off that path.
    c['best_effort_shape_interpretation'] = False
    c['skip_preconditioning_rank_lt'] = 2
  if c['graft_type'] in (3, 4) and rng.random() < 0.3:
    c['clip_by_scaled_gradient_norm'] = pick(rng, [0.5, 2.0])
  c['reuse_preconditioner'] = rng.random() < 0.2
  if rng.random() < emph.get('diag_eps_big', 0.2):
    c['diagonal_epsilon'] = pick(rng, [1e-3, 1e-1])
  return c


def fix_tree_for_config(rng, tree, cfg, need_stat=True, avoid_all_1x1=True,
                        max_stats=30):
  """Redraw leaves until the tree fits the constraints of the safe space."""
  for _ in range(200):
    lay = shp.tree_layout(tree, cfg)
    ok = True
    if need_stat and lay['n_stats'] == 0:
      ok = False
    if avoid_all_1x1 and lay['n_stats'] > 0 and lay['max_size'] <= 1:
      ok = False
    if lay['n_stats'] > max_stats:
      ok = False
    if cfg.get('precondtioner_type', 1) == 2:
      for l in lay['leaves']:
        if not l['skip'] and l['rank'] <= 1:
          ok = False
    cr = cfg.get('compression_rank', 0)
    if cr and lay['max_size'] <= abs(cr) + 2:
      ok = False
    if ok:
      return tree
    i = rng.randrange(len(tree))
    tree = list(tree)
    tree[i] = gen_shape(rng)
    if cr and rng.random() < 0.7:
      tree[i] = [pick(rng, [6, 7, 8, 9, 10]), pick(rng, [2, 3, 6, 8])]
      if cfg.get('best_effort_shape_interpretation', True) and \
          cfg.get('merge_small_dims_block_size', 4096) >= 12:
        tree[i] = [pick(rng, [6, 7, 8, 9, 10])] if rng.random() < 0.3 else tree[i]
  return [[4, 6]] if not cfg.get('compression_rank') else [[8, 6]]


def gen_step(rng, n_leaves, fault=None, kind=None, scale_jump=False):
  op = {'op': 'STEP', 'gseed': rng.randrange(1 << 30)}
  k = kind or wpick(rng, [('normal', 8), ('lowrank', 3), ('sparse', 2),
                          ('index', 1), ('zero', 1), ('onehot_leaf', 1)])
  op['kind'] = k
  if k == 'lowrank':
    op['rank'] = pick(rng, [1, 1, 2])
  if k == 'onehot_leaf':
    op['hot'] = rng.randrange(n_leaves)
  if scale_jump or rng.random() < 0.15:
    op['scale'] = 10.0 ** rng.randrange(-4, 5)
  if rng.random() < 0.15:
    op['leaf_scales'] = [10.0 ** rng.randrange(-3, 4) for _ in range(n_leaves)]
  if fault:
    op['fault'] = fault
  return op


def gen_fault(rng, n_leaves, kinds=None):
  kinds = kinds or FAULT_KINDS
  f = {'kind': pick(rng, kinds),
       'leaf': -1 if rng.random() < 0.25 else rng.randrange(n_leaves)}
  if f['kind'] in ('nan', 'pinf', 'ninf'):
    f['extent'] = 'entry' if rng.random() < 0.5 else 'leaf'
    f['pos'] = rng.randrange(1000)
  return f


def schedule_points(cfg, T):
  """Ticks (relative to clock 0) where the automaton predicts a refresh or
  warm-up boundary - faults are biased onto these."""
  p = cfg.get('preconditioning_compute_steps', 1)
  s = cfg.get('statistics_compute_steps', 1)
  S = cfg.get('start_preconditioning_step', 5)
  pts = set()
  for t in range(T):
    if t % p == 0 or t % s == 0 or t in (S - 1, S, S + 1):
      pts.add(t)
  return sorted(pts)
