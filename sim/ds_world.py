"""Distributed Shampoo under the simulator: real optimizer, simulated replicas,
simulated storage, virtual clock = the `count` leaf."""
import re

import numpy as np

import jax
import jax.numpy as jnp
from flax import serialization
from jax.sharding import Mesh, PartitionSpec as P

from precondition import distributed_shampoo as dsm

AXIS = 'batch'

DEFAULTS = dict(
    block_size=4, beta1=0.9, beta2=0.999, diagonal_epsilon=1e-10,
    matrix_epsilon=1e-6, weight_decay=0.0, start_preconditioning_step=5,
    preconditioning_compute_steps=1, decay_preconditioning_compute_steps=False,
    end_preconditioning_compute_steps=None, statistics_compute_steps=1,
    best_effort_shape_interpretation=True, graft_type=1, nesterov=True,
    exponent_override=0, best_effort_memory_usage_reduction=False,
    inverse_failure_threshold=0.1, moving_average_for_momentum=False,
    skip_preconditioning_dim_size_gt=4096, clip_by_scaled_gradient_norm=None,
    relative_matrix_epsilon=True, merge_small_dims_block_size=4096,
    lobpcg_topk_precondition=0, lobpcg_max_iter=0, precondtioner_type=1,
    generate_fd_metrics=False, compression_rank=0, frequent_directions=False,
    reset_preconditioner=False, average_grad=False,
    skip_preconditioning_rank_lt=1, decoupled_learning_rate=True,
    decoupled_weight_decay=False, generate_training_metrics=True,
    reuse_preconditioner=False, eigh=False)


def make_lr(spec):
  """lr spec -> python float or jnp-traceable schedule; exact in float32."""
  k = spec['kind']
  v = float(spec['v'])
  if k == 'const':
    return v
  if k == 'linear':  # v * max(floor, 1 - t/T), T a power of two
    T = float(spec['T'])
    floor = float(spec.get('floor', 0.0))
    return lambda t: jnp.asarray(v, jnp.float32) * jnp.maximum(
        jnp.asarray(floor, jnp.float32),
        1.0 - jnp.asarray(t, jnp.float32) / jnp.asarray(T, jnp.float32))
  if k == 'halving':  # v * 2^-(t // every)
    every = int(spec['every'])
    return lambda t: jnp.asarray(v, jnp.float32) * jnp.power(
        jnp.asarray(0.5, jnp.float32), jnp.asarray(t // every, jnp.float32))
  if k == 'optax_linear':
    # a stock optax schedule (its result dtype follows the counter's type);
    # only used by properties that need no reference value (C07, C14)
    import optax
    return optax.linear_schedule(v, 0.1 * v, int(spec.get('T', 16)))
  raise ValueError(k)


def build_optimizer(cfg, lr_spec, mode, D):
  kw = dict(DEFAULTS)
  kw.update(cfg)
  kw['graft_type'] = dsm.GraftingType(int(kw['graft_type']))
  kw['precondtioner_type'] = dsm.PreconditionerType(
      int(kw['precondtioner_type']))
  if mode in ('vmap', 'pmap'):
    kw['batch_axis_name'] = AXIS
  elif mode == 'sharded':
    kw['shard_optimizer_states'] = True
    kw['statistics_partition_spec'] = P('x', None, None)
    kw['preconditioner_partition_spec'] = P('x', None, None)
    kw['num_devices_for_pjit'] = int(D)
  return dsm.distributed_shampoo(make_lr(lr_spec), **kw)


def tree_of(leaves):
  return {f'p{i}': x for i, x in enumerate(leaves)}


def untree(tree, n):
  return [tree[f'p{i}'] for i in range(n)]


def named_leaves(state):
  """path string -> numpy array, in flatten order."""
  flat, _ = jax.tree_util.tree_flatten_with_path(state)
  out = {}
  for path, leaf in flat:
    out[jax.tree_util.keystr(path)] = np.asarray(leaf)
  return out


def signature(tree):
  flat, treedef = jax.tree_util.tree_flatten_with_path(tree)
  return (treedef,
          tuple((jax.tree_util.keystr(p), tuple(np.shape(l)),
                 str(np.asarray(l).dtype) if not hasattr(l, 'dtype')
                 else str(l.dtype)) for p, l in flat))


_CAT = [
    ('count', re.compile(r'\.count$')),
    ('exponents', re.compile(r'global_stats\.exponents')),
    ('stat', re.compile(r'(\.statistics\[\d+\])|(global_stats\.statistics)')),
    ('precond', re.compile(
        r'(\.preconditioners\[\d+\])|(global_stats\.preconditioners)')),
    ('metrics', re.compile(r'training_metrics')),
    ('mom', re.compile(r'\.momentum\.')),
    ('dmom', re.compile(r'\.diagonal_momentum\.')),
    ('diag', re.compile(r'\.diagonal_statistics\.')),
    ('avg_grad', re.compile(r'\.avg_grad')),
]


def category(path):
  for name, rx in _CAT:
    if rx.search(path):
      return name
  return 'other'


class DSWorld:
  """One optimizer incarnation. A crash throws the whole object away."""

  def __init__(self, plan, D=None, mode=None):
    self.plan = plan
    self.cfg = dict(DEFAULTS)
    self.cfg.update(plan.get('config', {}))
    self.lr_spec = plan.get('lr', {'kind': 'const', 'v': 0.1})
    self.mode = mode or plan.get('mode', 'jit')
    self.D = int(D if D is not None else plan.get('D', 1))
    self.mesh_size = int(plan.get('mesh', 1))
    self.shapes = [tuple(s) for s in plan['tree']]
    self.n = len(self.shapes)
    self.mesh = None
    self.incarnate()

  # -- optimizer object + compiled update: volatile, lost on crash
  def incarnate(self):
    self.opt = build_optimizer(self.cfg, self.lr_spec, self.mode, self.D)
    mode = self.mode
    if mode == 'jit':
      self._upd = jax.jit(self.opt.update)
    elif mode == 'eager':
      self._upd = self.opt.update
    elif mode == 'vmap':
      self._upd = jax.jit(jax.vmap(self.opt.update, axis_name=AXIS))
    elif mode == 'pmap':
      self._upd = jax.pmap(self.opt.update, axis_name=AXIS,
                           devices=jax.devices()[:self.D])
    elif mode == 'sharded':
      devs = np.array(jax.devices()[:self.mesh_size])
      self.mesh = Mesh(devs, ('x',))
      self._upd = jax.jit(self.opt.update)
    else:
      raise ValueError(mode)

  def replicate(self, tree):
    if self.mode in ('vmap', 'pmap'):
      return jax.tree.map(
          lambda x: jnp.broadcast_to(jnp.asarray(x), (self.D,) + np.shape(x)),
          tree)
    return tree

  def init(self, params):
    ptree = tree_of([jnp.asarray(p) for p in params])
    if self.mode == 'sharded':
      with self.mesh:
        fns = self.opt.init(ptree)
        st = fns.init_fn(ptree)
      return st
    st = self.opt.init(ptree)
    return self.replicate(st)

  def update(self, grads, state, params):
    g = self.replicate(tree_of([jnp.asarray(x) for x in grads]))
    p = self.replicate(tree_of([jnp.asarray(x) for x in params]))
    if self.mode == 'sharded':
      with self.mesh:
        u, s = self._upd(g, state, p)
    else:
      u, s = self._upd(g, state, p)
    return u, s

  def updates_np(self, u):
    """Per-leaf numpy updates; replica axis kept if present."""
    return [np.asarray(x) for x in untree(u, self.n)]

  # -- storage seam
  @staticmethod
  def to_bytes(state):
    return serialization.to_bytes(state)

  def from_bytes(self, template, data):
    # a trainer places the restored checkpoint on device; numpy leaves fed to
    # an eager update would dispatch to numpy arithmetic (1-ulp differences)
    return jax.tree.map(jnp.asarray, serialization.from_bytes(template, data))

  def set_clock(self, state, t):
    return state._replace(count=jnp.full_like(state.count, t))

  def first_replica(self, state):
    if self.mode in ('vmap', 'pmap'):
      return jax.tree.map(lambda x: x[0], state)
    return state


def sha_leaves(d):
  import hashlib
  out = {}
  for k, v in d.items():
    a = np.ascontiguousarray(v)
    if a.dtype.kind == 'f' and a.size:
      # -0.0 and +0.0 are the same number (the sign of a zero can depend on how
      # XLA folded an expression for sharded vs. unsharded inputs)
      a = a + np.zeros((), a.dtype)
    if a.dtype.kind == 'f' and a.size and np.isnan(a).any():
      # NaN sign/payload bits carry no meaning (and do not survive every
      # transport); hash a canonical NaN
      a = np.where(np.isnan(a), np.array(np.nan, a.dtype), a)
      a = np.ascontiguousarray(a)
    out[k] = hashlib.sha256(
        (str(a.dtype) + str(a.shape)).encode() + a.tobytes()).hexdigest()[:16]
  return out
