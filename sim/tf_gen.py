"""Seeded generators for Tearfree plans (pure python)."""
from sim import ds_gen
from sim.refmodel import tearfree as tref  # pure numpy/python
from sim.util import pick, wpick


def gen_shape(rng, B, so, max_elems=300):
  rank = wpick(rng, [(1, 2), (2, 8), (3, 3), (4, 1)])
  for _ in range(100):
    dims = [wpick(rng, [(2, 3), (3, 3), (4, 3), (5, 2), (6, 3), (7, 1), (8, 3),
                        (9, 1), (10, 1), (12, 1), (1, 1)]) for _ in range(rank)]
    n = 1
    for d in dims:
      n *= d
    if n <= max_elems:
      return dims
  return [2] * rank


def gen_config(rng, so=None, emph=None, variants=False):
  """variants=True also draws the Sketchy options the float64 model does not
  cover (ekfac_svd, add_ggt, linear_approx_tail): for properties whose oracles
  are bitwise (cadence, layout, resume)."""
  emph = emph or {}
  so = so or pick(rng, ['shampoo', 'shampoo', 'sketchy'])
  c = {'second_order': so,
       'merge_dims': wpick(rng, [(1024, 2), (4, 2), (8, 2), (16, 2), (2, 1)])}
  c['shampoo'] = {
      'block_size': wpick(rng, [(2, 2), (3, 3), (4, 4), (5, 2), (8, 2), (1024, 1)]),
      'update_preconditioners_freq': wpick(rng, emph.get('p', [(1, 4), (2, 2), (3, 2), (5, 1)])),
      'update_statistics_freq': wpick(rng, emph.get('s', [(1, 4), (2, 2), (3, 1)])),
      'second_moment_decay': pick(rng, [1.0, 0.999, 0.9, 0.5])}
  c['sketchy'] = {
      'epsilon': pick(rng, [1e-7, 1e-3, 0.0, 1e-1]),
      'rank': wpick(rng, [(1, 2), (2, 3), (3, 2), (4, 1), (16, 1)]),
      'relative_epsilon': rng.random() < 0.7,
      'second_moment_decay': pick(rng, [1.0, 0.999, 0.9, 0.5]),
      'update_freq': wpick(rng, emph.get('p', [(1, 4), (2, 2), (3, 2), (5, 1)]))}
  if variants:
    # (drawn after everything else of the sketch so that variants=False plans
    # are unchanged)
    vr = rng.random()
    if vr < 0.25:
      c['sketchy']['ekfac_svd'] = True
    elif vr < 0.35:
      c['sketchy']['add_ggt'] = True
    elif vr < 0.45:
      c['sketchy']['linear_approx_tail'] = True
    elif vr < 0.5:
      c['sketchy']['ekfac_svd'] = True
      c['sketchy']['add_ggt'] = True
  gt = emph.get('graft', pick(rng, ['none', 'sgd', 'rmsprop', 'rmsprop']))
  c['graft'] = {
      'grafting_type': gt,
      'second_moment_decay': (pick(rng, [1.0, 0.999, 0.9]) if gt == 'rmsprop'
                              else 0.0),
      'start_preconditioning_step': wpick(rng, [(0, 3), (1, 2), (2, 2), (5, 1)]),
      'epsilon': pick(rng, [1e-23, 1e-8, 1e-3]),
      'skip_preconditioning_rank1': rng.random() < 0.7,
      'skip_preconditioning_any_dim_gt': pick(rng, [4096, 4096, 7])}
  c['momentum'] = {
      'ema': rng.random() < 0.4, 'nesterov': rng.random() < 0.5,
      'momentum_decay': emph.get('mom', pick(rng, [0.0, 0.5, 0.9])),
      'weight_decay': emph.get('wd', pick(rng, [0.0, 0.0, 0.01, 0.1])),
      'weight_decay_after_momentum': rng.random() < 0.5}
  return c


def tree_ok(tree, cfg):
  """The explicit rejections of the tearfree constructors, mirrored so that
  generated plans stay inside the accepted space."""
  from sim.tf_world import full_config
  fc = full_config(cfg)
  B = fc['shampoo']['block_size']
  any_so = False
  for s in tree:
    lay = tref.layout(s, fc)
    if lay['masked']:
      continue
    any_so = True
    if any(d == 1 for d in lay['merged']):
      return False
    if fc['second_order'] == 'shampoo' and len(lay['large']) > 2:
      return False
  return any_so


def gen_tree(rng, cfg, n=None):
  from sim.tf_world import full_config
  fc = full_config(cfg)
  B = fc['shampoo']['block_size']
  n = n or wpick(rng, [(1, 3), (2, 4), (3, 2)])
  for _ in range(300):
    tree = [gen_shape(rng, B, fc['second_order']) for _ in range(n)]
    if tree_ok(tree, cfg):
      return tree
  return [[4, 6]]
