"""Root oracle (DESIGN 2.4): existential in the ridge, never root-vs-root."""
import numpy as np

U32 = 2.0 ** -24
U64 = 2.0 ** -53
K = 20.0


def _rmin(M0, M1, lo, hi):
  """min over d in [lo, hi] of ||M0 + d*M1||_max (convex in d)."""
  f = lambda d: float(np.max(np.abs(M0 + d * M1)))
  if hi <= lo:
    return f(lo), lo
  a, b = lo, hi
  for _ in range(120):
    m1 = a + (b - a) / 3.0
    m2 = b - (b - a) / 3.0
    if f(m1) <= f(m2):
      b = m2
    else:
      a = m1
  d = 0.5 * (a + b)
  best = min((f(d), d), (f(lo), lo), (f(hi), hi))
  return best


def ridge_interval(S, eps, relative, method, lam_hat=None, retries=None,
                   window=1e-6):
  """Admissible [d_lo, d_hi] for the ridge the routine may have used."""
  lam_max = float(np.max(np.linalg.eigvalsh(S))) if S.size else 0.0
  lam_max = max(lam_max, 0.0)
  if method == 'newton':
    floor = 1e-25
    mult = 1.0
    if retries is not None and np.isfinite(retries) and retries >= 1:
      mult = 10.0 ** (int(round(float(retries))) - 1)
    if not relative:
      d = eps * mult
      return d * (1 - window), d * (1 + window), lam_max
    if lam_hat is not None and np.isfinite(lam_hat):
      d = eps * max(float(lam_hat), floor) * mult
      return d * (1 - window), d * (1 + window), lam_max
    return eps * floor * mult, eps * max(lam_max, floor) * mult * (1 + 1e-6), \
        lam_max
  # eigh / low-rank: lambda-hat is never reported
  floor = 1e-6
  if not relative:
    d = eps * 1.0
    return d * (1 - 1e-6), d * (1 + 1e-6), lam_max
  return eps * floor, eps * max(lam_max, floor) * (1 + 1e-6), lam_max


def check_root(S, X, p, err, eps, relative, method, lam_hat=None,
               retries=None, u=U32, k=K, u_compute=None, lam_window=1e-6):
  """Returns (status, ratio, detail). status in ok|vacuous|violation."""
  S = np.asarray(S, np.float64)
  X = np.asarray(X, np.float64)
  n = S.shape[0]
  if not (np.all(np.isfinite(S)) and np.isfinite(err)):
    return 'vacuous', None, 'nonfinite_input'
  if not np.all(np.isfinite(X)):
    return 'violation', None, 'root_nonfinite'
  S = 0.5 * (S + S.T)
  xn = float(np.max(np.abs(X))) if X.size else 0.0
  asym = float(np.max(np.abs(X - X.T))) if X.size else 0.0
  lo, hi, lam_max = ridge_interval(S, eps, relative, method, lam_hat, retries,
                                   window=lam_window)
  w = np.linalg.eigvalsh(S)
  lam_min = float(w[0])
  den = lam_min + lo
  if not (den > 0):
    return 'vacuous', None, 'singular'
  kappa = (lam_max + lo) / den
  if not np.isfinite(kappa) or kappa > 1e8:
    return 'vacuous', None, 'kappa'
  slack = k * n * p * kappa * u
  if slack > 0.05:
    return 'vacuous', None, 'slack'
  # symmetric up to rounding: one ulp of the stored dtype plus what up to 100
  # coupled-Newton products accumulate in the compute dtype
  uc = u if u_compute is None else u_compute
  # (measured on 295 float64 Newton roots: asymmetry <= 0.5 u kappa ||X||)
  sym_tol = (k * u + 10.0 * uc * max(1.0, kappa) +
             100.0 * n * uc * max(1.0, kappa ** (1.0 / p))) * max(xn, 1e-300)
  if asym > sym_tol:
    return 'violation', asym / sym_tol, 'asymmetric'
  Xp = np.linalg.matrix_power(X, int(p))
  M0 = Xp @ S - np.eye(n)
  M1 = Xp
  if not (np.all(np.isfinite(M0)) and np.all(np.isfinite(M1))):
    return 'vacuous', None, 'nonfinite_intermediate'
  rmin, dbest = _rmin(M0, M1, lo, hi)
  # the reported error is a float32 number
  bound = float(err) * (1.0 + 2.0 ** -22) + slack
  ratio = (rmin - float(err)) / (n * p * kappa * u)
  if rmin > bound:
    return 'violation', ratio, f'residual rmin={rmin:.3e} err={err:.3e} ' \
        f'slack={slack:.3e} kappa={kappa:.3e} d={dbest:.3e}'
  return 'ok', max(ratio, 0.0) / k, ''
