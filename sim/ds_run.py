"""Generic single-world run loop for Distributed Shampoo plans."""
import numpy as np

from sim import ds_oracles as orc
from sim.ctx import Ctx
from sim.ds_view import View
from sim.ds_world import DSWorld, named_leaves, sha_leaves, signature
from sim.grads import make_grads, make_params

ORACLES = {
    'cadence': orc.cadence,
    'gate': orc.gate,
    'roots': orc.roots,
    'refine': orc.refine,
    'warmup': orc.warmup,
    'graft': orc.graft,
    'roots64': orc.roots64,
}


def register(name, fn):
  ORACLES[name] = fn


def _layout_ok(ctx, view, leaves, world, t):
  """The state must hold exactly the statistics / preconditioners the
  documented shape pipeline announces; otherwise the model cannot read it and
  the disagreement itself is the violation."""
  ok = True
  for i, leaf in enumerate(view.layout['leaves']):
    want = len(leaf['stats'])
    if view.sharded:
      continue
    b = view.base(i)
    have = 0
    while (b + f'.statistics[{have}]') in leaves or \
        (b + f'.statistics[{have}].quantized') in leaves:
      have += 1
    if have != want:
      ok = False
      if ('layout', i) not in ctx.__dict__.setdefault('_reported', set()):
        ctx._reported.add(('layout', i))
        ctx.violate('state_layout', world.mode,
                    'number_of_statistics_differs_from_documented_blocks',
                    tick=t, leaf=i, have=have, want=want,
                    shape=list(leaf['shape']))
      continue
    for j, (_, _, d) in enumerate(leaf['stats']):
      try:
        S = view.stat(leaves, i, j)
      except Exception:  # pylint: disable=broad-except
        S = None
      if S is None or S.shape != (d, d):
        ok = False
        if ('layout', i, j) not in ctx.__dict__.setdefault('_reported', set()):
          ctx._reported.add(('layout', i, j))
          ctx.violate('state_layout', world.mode,
                      'statistic_shape_differs_from_documented_block', tick=t,
                      leaf=i, stat=j, want=[d, d],
                      have=None if S is None else list(S.shape))
  if view.sharded:
    g = leaves.get('.stats.global_stats.statistics')
    if g is None or g.shape[0] < view.n_stats or (
        view.n_stats and g.shape[1] != view.layout['max_size']):
      ok = False
      ctx.violate('state_layout', world.mode, 'global_stack_shape', tick=t)
  return ok


def run(plan, prop):
  ctx = Ctx(plan, prop)
  shapes = [tuple(s) for s in plan['tree']]
  params = make_params(shapes, plan.get('param_seed', 0))
  world = DSWorld(plan)
  view = View(world.cfg, world.shapes, world.mode)
  state = world.init(params)
  init_leaves = named_leaves(state)
  init_sig = signature(state)
  volatile, durable = {}, {}
  poisoned = set()
  oracles = [ORACLES[o] for o in plan.get('oracles', [])]
  ctx.log.add(op='INIT', st=sha_leaves(init_leaves))
  after_restore = False
  rebase = False
  for idx, op in enumerate(plan['ops']):
    ctx.op_index = idx
    kind = op['op']
    ctx.saw_op(kind)
    if kind == 'STEP':
      grads, pnow = make_grads(shapes, op)
      f = op.get('fault')
      prev = named_leaves(state)
      t = view.clock(prev)
      u, state2 = world.update(grads, state, params)
      new = named_leaves(state2)
      ups = world.updates_np(u)
      if view.rep is not None:
        ups = [x[0] for x in ups]
      if f:
        ctx.faults[f['kind']] += 1
      poisoned |= pnow
      rec = dict(t=t, op=op, opkind=('STEP_AFTER_RESTORE' if after_restore
                                     else 'STEP'),
                 grads=grads, poisoned=set(poisoned), poisoned_now=pnow,
                 prev=prev, new=new, updates=ups, view=view, params=params,
                 world=world, init_leaves=init_leaves, rebase=rebase)
      rebase = False
      lay_ok = _layout_ok(ctx, view, new, world, t)
      for o in (oracles if lay_ok else []):
        o(ctx, rec)
      if signature(state2) != init_sig and plan.get('check_layout', True):
        ctx.violate('layout_fixed_point', world.mode, 'state_signature_changed',
                    tick=t)
      state = state2
      ctx.ticks += 1
      ctx.max_clock = max(ctx.max_clock, t + 1)
      ctx.log.add(op='STEP', t=t, upd=sha_leaves(
          {str(i): x for i, x in enumerate(ups)}), st=sha_leaves(new))
      after_restore = False
      if plan.get('params_follow') and not poisoned:
        params = [np.asarray(p + x, np.float32) for p, x in zip(params, ups)]
    elif kind == 'CHECKPOINT':
      t = view.clock(named_leaves(state))
      import copy as _copy
      volatile[t] = (world.to_bytes(state), set(poisoned),
                     [np.array(p) for p in params],
                     _copy.deepcopy(ctx.__dict__.get('hist', {})))
      if op.get('sync', True):
        durable.update(volatile)
        volatile = {}
      ctx.log.add(op='CHECKPOINT', t=t, sync=bool(op.get('sync', True)))
    elif kind in ('CRASH_RESTORE', 'RESCALE'):
      volatile = {}
      if not durable:
        ctx.log.add(op=kind, skipped=True)
        continue
      keys = sorted(durable)
      k = keys[int(op.get('which', -1)) % len(keys)]
      data, pz, pars, hist = durable[k]
      import copy as _copy
      ctx.hist = _copy.deepcopy(hist)
      old_mode, old_D = world.mode, world.D
      del world, state
      if kind == 'RESCALE':
        newD = int(op['D'])
        world0 = DSWorld(plan, D=old_D, mode=old_mode)
        st0 = world0.from_bytes(world0.init(params), data)
        world = DSWorld(plan, D=newD)
        state = world.replicate(world0.first_replica(st0))
        del world0
        ctx.probe('rescale')
      else:
        world = DSWorld(plan, D=old_D, mode=old_mode)
        template = world.init(params)
        state = world.from_bytes(template, data)
        if signature(state) != signature(template):
          ctx.violate('restore_layout', world.mode, 'signature_differs', at=k)
      view = View(world.cfg, world.shapes, world.mode)
      poisoned = set(pz)
      params = [np.array(p) for p in pars]
      pt = k % max(world.cfg.get('preconditioning_compute_steps', 1), 1) == 0
      if pt:
        ctx.probe('restore_on_refresh_tick')
      after_restore = True
      rebase = True
      ctx.log.add(op=kind, at=k)
    elif kind == 'REJIT':
      world.incarnate()
      ctx.log.add(op='REJIT')
    elif kind == 'CLOCK_JUMP':
      state = world.set_clock(state, int(op['to']))
      ctx.probe('clock_jump')
      rebase = True
      ctx.log.add(op='CLOCK_JUMP', to=int(op['to']))
    else:
      raise ValueError(kind)
  return ctx.result()
