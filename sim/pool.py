"""Worker pool: fresh interpreters, one plan at a time, hard timeouts.

A run's result does not depend on which worker executed it or on how many
workers exist; results are returned in job order.
"""
import json
import os
import queue
import select
import subprocess
import sys
import threading
import time

HERE = os.path.dirname(os.path.dirname(os.path.abspath(__file__)))
PY = os.environ.get('VERIF_PYTHON', '/venv/bin/python')
OUT = os.path.join(HERE, 'out')


class Worker:

  def __init__(self, x64, slot, hashseed='0'):
    os.makedirs(os.path.join(OUT, 'logs'), exist_ok=True)
    env = dict(os.environ)
    env['PYTHONHASHSEED'] = hashseed
    env['JAX_PLATFORMS'] = 'cpu'
    env.pop('XLA_FLAGS', None)
    env['PYTHONPATH'] = HERE
    self.errpath = os.path.join(OUT, 'logs', f'worker-{os.getpid()}-{slot}-{int(x64)}.log')
    self.err = open(self.errpath, 'ab')
    self.p = subprocess.Popen(
        [PY, os.path.join(HERE, 'sim', 'worker_main.py'), str(int(x64))],
        stdin=subprocess.PIPE, stdout=subprocess.PIPE, stderr=self.err,
        env=env, cwd=HERE)
    self.buf = b''
    msg = self._read(180)
    if not msg or not msg.get('ready'):
      self.kill()
      raise RuntimeError(f'worker failed to start, see {self.errpath}')

  def _read(self, timeout):
    end = time.monotonic() + timeout
    fd = self.p.stdout.fileno()
    while True:
      nl = self.buf.find(b'\n')
      if nl >= 0:
        line, self.buf = self.buf[:nl], self.buf[nl + 1:]
        return json.loads(line)
      left = end - time.monotonic()
      if left <= 0:
        return None
      r, _, _ = select.select([fd], [], [], min(left, 5.0))
      if r:
        chunk = os.read(fd, 1 << 16)
        if not chunk:
          return None
        self.buf += chunk
      elif self.p.poll() is not None:
        return None

  def run(self, job, timeout):
    job = dict(job)
    job['timeout'] = timeout
    try:
      self.p.stdin.write((json.dumps(job) + '\n').encode())
      self.p.stdin.flush()
    except (BrokenPipeError, OSError):
      return None
    return self._read(timeout + 30)

  def kill(self):
    try:
      self.p.kill()
      self.p.wait(10)
    except Exception:  # pylint: disable=broad-except
      pass
    try:
      self.err.close()
    except Exception:  # pylint: disable=broad-except
      pass

  def close(self):
    try:
      self.p.stdin.write(b'{"quit":true}\n')
      self.p.stdin.flush()
      self.p.wait(10)
    except Exception:  # pylint: disable=broad-except
      self.kill()
    try:
      self.err.close()
    except Exception:  # pylint: disable=broad-except
      pass


def run_jobs(jobs, n_workers=None, timeout=600, hashseed='0', progress=None,
             deadline=None):
  """jobs: list of dict(id, prop, plan). Returns list of replies, job order.

  A reply is the worker's JSON, or {'ok': False, 'kind': 'timeout'|'died'}.
  `deadline` (monotonic seconds): jobs not started by then are returned as
  {'ok': False, 'kind': 'not_run'}.
  """
  n_workers = n_workers or int(os.environ.get('VERIF_JOBS', '16'))
  n_workers = max(1, min(n_workers, len(jobs)))
  q = queue.Queue()
  for i, j in enumerate(jobs):
    q.put((i, j))
  results = [None] * len(jobs)
  lock = threading.Lock()
  done = [0]

  def loop(slot):
    workers = {}
    hist = {}   # x64 -> indices of the jobs the live worker process has run
    while True:
      try:
        i, job = q.get_nowait()
      except queue.Empty:
        break
      if deadline is not None and time.monotonic() > deadline:
        results[i] = {'id': job['id'], 'ok': False, 'kind': 'not_run'}
        continue
      x64 = bool(job['plan'].get('x64', True))
      w = workers.get(x64)
      try:
        if w is None:
          w = workers[x64] = Worker(x64, slot, hashseed)
          hist[x64] = []
        prefix = list(hist[x64])
        rep = w.run(job, timeout)
        hist[x64].append(i)
        if isinstance(rep, dict):
          # which jobs ran earlier in the same interpreter: part of the
          # schedule if the library keeps process-global state
          rep['_prefix'] = prefix
      except Exception as e:  # pylint: disable=broad-except
        rep = {'id': job['id'], 'ok': False, 'kind': 'harness',
               'exc': type(e).__name__, 'msg': str(e)}
        w = None
      if rep is None:
        kind = 'timeout' if (w and w.p.poll() is None) else 'died'
        tail = ''
        if w:
          w.kill()
          try:
            with open(w.errpath, 'rb') as f:
              f.seek(max(0, os.path.getsize(w.errpath) - 3000))
              tail = f.read().decode('utf8', 'replace')
          except OSError:
            pass
          workers.pop(x64, None)
          hist.pop(x64, None)
        rep = {'id': job['id'], 'ok': False, 'kind': kind, 'tb': tail}
      results[i] = rep
      with lock:
        done[0] += 1
        if progress:
          progress(done[0], len(jobs))
    for w in workers.values():
      w.close()

  threads = [threading.Thread(target=loop, args=(s,), daemon=True)
             for s in range(n_workers)]
  for t in threads:
    t.start()
  for t in threads:
    t.join()
  return results


def run_sequences(seqs, n_workers=None, timeout=600, hashseed='0'):
  """Each element of `seqs` is a list of jobs that is executed, in order, in
  ONE fresh interpreter (all jobs of a sequence must agree on x64). Returns,
  per sequence, the list of replies (None entries after a dead worker)."""
  n_workers = n_workers or int(os.environ.get('VERIF_JOBS', '16'))
  n_workers = max(1, min(n_workers, len(seqs)))
  q = queue.Queue()
  for i, sq in enumerate(seqs):
    q.put((i, sq))
  out = [None] * len(seqs)

  def loop(slot):
    while True:
      try:
        i, sq = q.get_nowait()
      except queue.Empty:
        return
      reps = []
      w = None
      try:
        w = Worker(bool(sq[0]['plan'].get('x64', True)), f's{slot}', hashseed)
        for job in sq:
          r = w.run(job, timeout)
          reps.append(r)
          if r is None:
            break
      except Exception as e:  # pylint: disable=broad-except
        reps.append({'id': None, 'ok': False, 'kind': 'harness',
                     'exc': type(e).__name__, 'msg': str(e)})
      finally:
        if w is not None:
          (w.close if reps and reps[-1] is not None else w.kill)()
      reps += [None] * (len(sq) - len(reps))
      out[i] = reps

  threads = [threading.Thread(target=loop, args=(s,), daemon=True)
             for s in range(n_workers)]
  for t in threads:
    t.start()
  for t in threads:
    t.join()
  return out
